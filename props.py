"""Per-property tables for ./check: which harnesses / Verus units decide a property, what is under
contract, what is bounded, what is assumed. Counts in the evidence are measured at run time; the
text here is the claim they are measured against."""

GLOBAL_TRUSTED = [
    "Kani 0.68 / CBMC 6.11 / CaDiCaL; Verus 0.2026.09.13 / Z3 (soundness of the verifiers)",
    "rustc MIR of Kani's toolchain agrees with the pinned 1.92 toolchain on the verified functions",
    "x86-64, little-endian, 64-bit usize (32-bit-only code paths are not verified)",
]
GLOBAL_ASSUMPTIONS = [
    "atomics are verified with sequential semantics: atomicity of each RMW and all memory orderings are assumed",
    "every kani::stub listed in the harness rows replaces a runtime singleton by a harness-controlled value",
]

PROPS = {}

PROPS["C33"] = {
    "level": "proof",
    "anchors": [("raw_align_up", "src/util/conversions.rs"), ("rshift_align_up", "src/util/conversions.rs"),
                ("align_allocation_inner", "src/util/alloc/allocator.rs"),
                ("get_maximum_aligned_size_inner", "src/util/alloc/allocator.rs"),
                ("align_up", "src/util/address.rs")],
    "kani": {"prefix": "c33_", "files": ["c33_align.rs"], "timeout_quick": 300, "timeout_thorough": 900},
    "verus": [],
    "functions": [
        "conversions::raw_align_up [in-place contract]", "conversions::raw_align_down [in-place contract]",
        "conversions::raw_is_aligned [in-place contract]", "conversions::rshift_align_up [in-place contract]",
        "conversions::bytes_to_pages_up (checked against raw_align_up's contract via stub_verified)",
        "conversions::pages_to_bytes", "conversions::bytes_to_chunks_up", "conversions::chunk_align_up/down",
        "conversions::address_to_chunk_index / chunk_index_to_address", "Address::align_up/align_down/is_aligned_to",
        "allocator::align_allocation_inner / align_allocation / align_allocation_no_fill (KVM<4,8>,<4,16>,<8,8>,<8,64>)",
        "allocator::get_maximum_aligned_size_inner / get_maximum_aligned_size", "allocator::fill_alignment_gap",
    ],
    "explanation": "Every harness is loop-free over full-domain symbolic usize inputs, so each discharged harness is a "
                   "complete proof of its postcondition for all inputs satisfying the stated precondition. "
                   "'Least address' is checked in window form (r >= region, aligned, r - region < alignment); "
                   "multiples of a power of two are stated in mask/shift form.",
    "bounds": ["none (loop-free); VM alignment constants enumerated: (MIN,MAX) in {(4,8),(4,16),(8,8),(8,64)}"],
    "assumptions": [
        "precondition: region < 2^63 - alignment (Address + isize is a signed add; addresses lie in the user half)",
        "precondition: offset <= isize::MAX; for known_alignment > MIN_ALIGNMENT the offset is a multiple of known_alignment "
        "(no caller passes known_alignment != MIN_ALIGNMENT)",
        "precondition of bytes_to_chunks_up: bytes + BYTES_IN_CHUNK does not overflow (the function's own intermediate sum)",
        "mask form r & (a-1) == 0 is used for 'multiple of a' (a a power of two)",
    ],
    "trusted_base": ["std::ptr::write_bytes as modelled by CBMC (gap filling)"],
    "not_covered": [],
}

# ---------------------------------------------------------------------------------------------
# Properties this family cannot decide (DESIGN.md section 5); mirrored into MANIFEST.json.
# ---------------------------------------------------------------------------------------------
NOT_APPLICABLE = {
    "C01": "whole-collector property over programs x schedules x plans; no function or data-structure contract expresses it (tracing+copying+scheduler+binding composition is outside both verifiers)",
    "C02": "needs the heap's live set across GCs and a full MMTk instance (spaces, page resources, mmapper); arithmetic kernel proved under C33, free-list disjointness under C26",
    "C03": "depends on the whole acquire path (space membership, zeroing, retry loop); alignment/size arithmetic is covered by C33 and size-class fit by C35",
    "C04": "property of every plan's trace path across collections; not a per-function contract (the pin-bit transition is in C18)",
    "C05": "barrier + modbuf + nursery trace across a GC; whole-system (the log-bit step is in C18)",
    "C06": "reference/finalizer processors against a tracing closure and whole-heap liveness; not expressible without specifying the collector",
    "C07": "whole-system: VO-bit maintenance by every policy across a GC",
    "C09": "history property over the whole collector and page resources",
    "C10": "sequencing inside alloc_slow_inline's retry loop against Space::acquire and the GC trigger; needs a live allocator + plan",
    "C11": "scheduler/schedule-level protocol over concurrent work packets",
    "C12": "concurrent SATB protocol across mutator/collector interleavings",
    "C13": "scheduler-level protocol (sentinel rounds) over work buckets",
    "C14": "liveness under all interleavings (condvars, parked-worker counts); Kani has no threads and liveness is outside contracts",
    "C15": "schedule-quantified protocol property of GCWorkScheduler/WorkBucket",
    "C16": "schedule-quantified protocol property of worker shutdown/fork",
    "C29": "Map32 keeps its state behind UnsafeCell/mut_self aliasing and 2^25-entry per-chunk tables, and calls the global SFT_MAP: Verus extraction would need a rewrite into a model; a bounded Kani harness on the real Map32 (kani/src/c29_map32.rs, kept as an experiment) fails inside CBMC ('array too large for flattening' with the real tables; out of memory at propositional reduction even with max_chunks stubbed to 16 and no operation performed). Its free-list substrate is covered by C26",
    "C30": "transition logic lives in closures calling mmap (FFI) inside bulk_transition_state over 8192-entry lazily allocated slabs; stubbing the OS and trait-object storage would leave little of the real path. The group-by it relies on is C40",
    "C39": "string grammars through regex/to_lowercase/str::parse/String: Verus rejects str byte reasoning, Kani explodes on regex/Unicode tables; the 3-line validate-then-assign would not carry the property",
}

PROPS["C23"] = {
    "level": "proof",
    "anchors": [("compare_exchange", "src/util/metadata/header_metadata.rs"), ("fetch_update", "src/util/metadata/header_metadata.rs"),
                ("set_bits_to_u8", "src/util/metadata/header_metadata.rs"), ("HeaderMetadataSpec", "src/util/metadata/header_metadata.rs")],
    "kani": {"prefix": "c23_", "files": ["c23_header.rs"], "timeout_quick": 600, "timeout_thorough": 1800},
    "functions": ["HeaderMetadataSpec::{load, load_atomic, store, store_atomic, compare_exchange, fetch_add, fetch_sub, fetch_and, "
                  "fetch_or, fetch_update} for T in {u8 (sub-byte and 8-bit), u16, u32, u64, usize}",
                  "private helpers reached through them: get_shift_and_mask_for_bits, get_bits_from_u8, set_bits_to_u8, "
                  "truncate_bits_in_u8, fetch_ops_on_bits, meta_addr, assert_spec, assert_mask (live as obligations)"],
    "explanation": "Each harness runs the real accessor on a 24-byte fully symbolic header window with a symbolic spec "
                   "(bit_offset in [-64,63]; 1..=7 bits inside one byte, or a naturally aligned 8/16/32/64-bit field with a symbolic "
                   "optional mask) and symbolic operands, and asserts: returned value == previous field value only; field afterwards == "
                   "the operation's arithmetic; every bit outside the field is unchanged. Loop-free except std's fetch_update retry "
                   "loop (exits after one iteration sequentially; unwinding assertion on). Because every operation is shown to be "
                   "exactly its abstract field operation on an arbitrary header image, sequences compose by induction.",
    "bounds": ["bit_offset restricted to [-64, 63] (one word either side of the header address): the accessors' address arithmetic is "
               "header + (bit_offset >> 3), uniform in the offset"],
    "assumptions": ["compare-exchange operands are values of the field (fit in the field width / inside the mask)",
                    "sub-byte store operand fits the field (mmtk's own debug_assert in set_bits_to_u8)",
                    "atomicity of each RMW and memory orderings (sequential semantics)"],
    "trusted_base": ["core::sync::atomic operations as modelled by Kani/CBMC"],
    "not_covered": ["mixed widths (num_of_bits != bit size of T for byte-or-wider specs)"],
}

PROPS["C20"] = {
    "level": "proof",
    "anchors": [("meta_byte_lshift", "src/util/metadata/side_metadata/helpers.rs"), ("meta_byte_mask", "src/util/metadata/side_metadata/helpers.rs"),
                ("address_to_contiguous_meta_address", "src/util/metadata/side_metadata/helpers.rs"),
                ("compare_exchange_atomic", "src/util/metadata/side_metadata/global.rs"), ("fetch_ops_on_bits", "src/util/metadata/side_metadata/global.rs")],
    "kani": {"prefix": "c20_", "files": ["c20_side.rs", "side.rs"], "timeout_quick": 900, "timeout_thorough": 2400},
    "functions": [
        "helpers::meta_byte_lshift [in-place contract]", "helpers::meta_byte_mask [in-place contract]",
        "helpers::address_to_contiguous_meta_address [in-place contract]", "helpers::contiguous_meta_address_to_address (inverse)",
        "SideMetadataSpec::{load, load_atomic, store, store_atomic, set_zero, set_zero_atomic, compare_exchange_atomic, "
        "fetch_add_atomic, fetch_sub_atomic, fetch_and_atomic, fetch_or_atomic, fetch_update_atomic} for widths 1,2,4 (symbolic), 8,16,32,64 bits",
        "private: side_metadata_access, fetch_ops_on_bits, assert_value_type (live as an obligation), get_starting_address",
        "sub-byte load/fetch_or/store additionally verified against the helper *contracts* (stub_verified) instead of their bodies",
    ],
    "explanation": "Each operation harness runs the real accessor on a 32-byte fully symbolic metadata window placed at a symbolic, "
                   "word-aligned position of a symbolic spec's table (symbolic region size 2^0..2^30, offset, global/local, window "
                   "anywhere in the address space), with a symbolic operated region and a symbolic address inside it. It asserts: "
                   "result == previous value of that region's field; field afterwards == the operation's arithmetic mod 2^width; "
                   "every other bit of the window unchanged; a load of any other region returns that region's field. The field "
                   "position is taken from an independent oracle (index*width), not from mmtk's helpers. Since each operation equals "
                   "its abstract array operation on an arbitrary image, any history is a composition of abstract operations "
                   "(induction on history length). Loop-free except std's fetch_update retry loop (one iteration sequentially, "
                   "unwinding assertion on). The helper contracts are proved for every spec/base/address without a window.",
    "bounds": ["window of 32 metadata bytes (256/width fields) around an arbitrary position: operations touch one field, so the window "
               "size only limits which neighbours are observed (all fields sharing a byte/word with the operated one are inside)"],
    "assumptions": [
        "operands fit the field width (mmtk's own assert_value_type rejects others; it stays live)",
        "the metadata bit index of the accessed region fits in usize (metadata table no larger than the address space)",
        "window placement: metadata offset of the window <= address of the harness buffer (so the stubbed base is non-negative)",
        "inverse translation only for specs with log_bytes_in_region >= log_num_of_bits (the code subtracts the two)",
    ],
    "trusted_base": ["kani::stub of global_side_metadata_base_address (metadata base relocated into the harness buffer)",
                     "core::sync::atomic as modelled by Kani/CBMC"],
    "not_covered": ["32-bit chunked local metadata layout (this build is 64-bit)", "set_raw_byte_atomic / load_raw_byte / load_raw_word (raw accessors, not per-field)",
                    "extreme_assertions sanity table"],
}

PROPS["C25"] = {
    "level": "proof",
    "anchors": [("verify_no_overlap_contiguous", "src/util/metadata/side_metadata/sanity.rs"),
                ("verify_global_specs", "src/util/metadata/side_metadata/sanity.rs"),
                ("verify_global_specs_total_size", "src/util/metadata/side_metadata/sanity.rs"),
                ("verify_local_specs_size", "src/util/metadata/side_metadata/sanity.rs")],
    "kani": {"prefix": "c25_", "files": ["c25_sanity.rs"], "timeout_quick": 900, "timeout_thorough": 2400},
    "functions": ["sanity::verify_no_overlap_contiguous", "sanity::verify_global_specs_total_size", "sanity::verify_local_specs_size",
                  "sanity::verify_global_specs (checked modularly against the contracts of its two callees)", "helpers::metadata_address_range_size"],
    "explanation": "verify_no_overlap_contiguous is run on two fully symbolic well-formed specs and a symbolic base: Err <=> the "
                   "address ranges [base+offset_i, base+offset_i+range_size_i) intersect (loop-free, complete). "
                   "verify_global_specs_total_size: Err <=> summed range sizes exceed the bound, for slices of <= 3 specs. "
                   "verify_global_specs is then verified modularly: its two callees are replaced by stubs answering from arbitrary "
                   "symbolic predicate tables (their contracts, proved by the two harnesses above), and the composition is shown to return "
                   "Err <=> total-too-big or some ordered pair of different specs is reported overlapping, for every slice of <= 3 specs.",
    "bounds": ["verify_global_specs / verify_global_specs_total_size: slices of length <= 3 (the pairwise predicate is complete)",
               "verify_local_specs_size: slices of length <= 2"],
    "assumptions": ["well-formed specs: log_num_of_bits <= 6, 0 <= log data/meta ratio <= 47, offset <= 2^50; base <= 2^62 (no address overflow)",
                    "io::Result is not kani::Arbitrary, so the modular step uses hand-written contract stubs instead of stub_verified"],
    "trusted_base": ["kani::stub of global_side_metadata_base_address (symbolic base)", "kani::stub of alloc::fmt::format (error text irrelevant)",
                     "contract stubs total_contract / pair_contract in c25_sanity.rs (each backed by a discharged harness)"],
    "not_covered": ["SideMetadataSanity::verify_metadata_context / verify_local_specs / get_all_specs (HashMap state, global RwLock): the "
                    "per-plan bookkeeping around the verified pair/slice predicates"],
}

PROPS["C32"] = {
    "level": "proof",
    "anchors": [("create_descriptor_from_heap_range", "src/util/heap/space_descriptor.rs"), ("get_start", "src/util/heap/space_descriptor.rs"),
                ("get_extent", "src/util/heap/space_descriptor.rs"), ("create_descriptor", "src/util/heap/space_descriptor.rs")],
    "kani": {"prefix": "c32_", "files": ["c32_descriptor.rs", "layout.rs"], "timeout_quick": 900, "timeout_thorough": 2400},
    "functions": ["SpaceDescriptor::{create_descriptor_from_heap_range, get_start, get_start_32, get_extent, get_extent_32, is_contiguous, "
                  "is_contiguous_hi, is_empty, get_index, create_descriptor}"],
    "explanation": "create_descriptor_from_heap_range followed by the decoders is run on symbolic (start, chunk count) under (a) any layout "
                   "with force_use_contiguous_spaces=false and exactly the limits the mantissa/exponent/size encoding admits, (a') the "
                   "concrete 32-bit layout for every range inside its heap, (b) any valid layout with force_use_contiguous_spaces=true. "
                   "The exponent loop is bounded by the operand width (unwind 48 >= 64-18, unwinding assertion on), so the proofs are complete.",
    "bounds": ["exponent loop unwound to 48 (>= 46 possible iterations: operand width minus BASE_EXPONENT)"],
    "assumptions": ["encoding limits as precondition: start != 0 chunk-aligned, 1 <= chunks < 1024, trailing zeros of start>>18 < 32, "
                    "odd part < 2^47 (the 32-bit layout satisfies them for every range in its heap, proved by c32_roundtrip_layout32)",
                    "64-bit style: start aligned to the space extent and inside [heap_start, heap_end)"],
    "trusted_base": ["kani::stub of vm_layout() by a symbolic VMLayout constrained exactly by VMLayout::validate's conditions"],
    "not_covered": ["start > heap_end in the 64-bit style (the code encodes index usize::MAX; no caller does this)"],
}

PROPS["C35"] = {
    "level": "proof",
    "anchors": [("mi_bin_from_size", "src/policy/marksweepspace/native_ms/block_list.rs"), ("mi_wsize_from_size", "src/policy/marksweepspace/native_ms/block_list.rs"),
                ("new_empty_block_lists", "src/policy/marksweepspace/native_ms/block_list.rs"), ("mi_bin", "src/policy/marksweepspace/native_ms/block_list.rs")],
    "kani": {"prefix": "c35_", "files": ["c35_sizeclass.rs"], "timeout_quick": 900, "timeout_thorough": 2400},
    "functions": ["block_list::mi_wsize_from_size", "block_list::mi_bin_from_size", "block_list::mi_bin::<KVM>", "block_list::new_empty_block_lists (the real table)",
                  "allocator::get_maximum_aligned_size (shared with C33)"],
    "explanation": "Symbolic size over the whole domain 0..=MAX_BIN_SIZE against the real 49-entry table: bin in 1..=48, cell size >= request, "
                   "previous bin's cell < request (tight, hence monotone; monotonicity also asserted directly on two symbolic sizes); with a "
                   "symbolic legal alignment the selected cell holds get_maximum_aligned_size(size, align). The table is strictly increasing, "
                   "word multiples, ends at MAX_BIN_SIZE (loop of 48 = code constant). Loop-free otherwise: complete.",
    "bounds": ["table walk unwound to 51 (49 entries, a constant of the code)"],
    "assumptions": ["size is a multiple of MIN_ALIGNMENT (debug_assert of get_maximum_aligned_size_inner) and the padded size <= MAX_BIN_SIZE "
                    "(larger requests go to the large-object allocator)"],
    "trusted_base": [],
    "not_covered": ["a fresh block's free list (FreeListAllocator::init_block touches six side-metadata tables of a live Block): not brought under contract"],
}


def scan_c38_single_writer(repo):
    """`current_heap_pages` is written only in MemBalancerTrigger::new (initialiser) and compute_new_heap_limit."""
    import re, os
    src = open(os.path.join(repo, "src/util/heap/gc_trigger.rs")).read()
    src = src.split("pub mod verif_hooks")[0]
    writes = [m.start() for m in re.finditer(r"current_heap_pages\s*\.\s*(store|swap|fetch_\w+|compare_exchange\w*)\s*\(", src)]
    ok = True
    where = []
    for w in writes:
        fn = re.findall(r"fn\s+(\w+)", src[:w])[-1]
        where.append(fn)
        if fn != "compute_new_heap_limit":
            ok = False
    return ok, "writers of current_heap_pages: %s (must be compute_new_heap_limit only)" % (where,)


PROPS["C38"] = {
    "level": "proof",
    "anchors": [("compute_new_heap_limit", "src/util/heap/gc_trigger.rs"), ("MemBalancerTrigger", "src/util/heap/gc_trigger.rs"),
                ("FixedHeapSizeTrigger", "src/util/heap/gc_trigger.rs")],
    "kani": {"prefix": "c38_", "files": ["c38_heapsize.rs"], "timeout_quick": 900, "timeout_thorough": 2400},
    "scans": [scan_c38_single_writer],
    "functions": ["MemBalancerTrigger::new", "MemBalancerTrigger::compute_new_heap_limit", "MemBalancerTrigger::{on_pending_allocation, "
                  "get_current_heap_size_in_pages, get_max_heap_size_in_pages, can_heap_size_grow}", "FixedHeapSizeTrigger getters"],
    "explanation": "Invariant min <= current <= max: established by new (for all min <= max) and preserved by compute_new_heap_limit for "
                   "all live/extra/pending page counts <= 2^36 and all statistics in their physical ranges including exact zeros "
                   "(IEEE-754 doubles as modelled by CBMC, including sqrt), with no arithmetic failure; a mechanical scan checks that "
                   "no other function writes current_heap_pages, so the invariant holds after every history (induction). Loop-free: complete.",
    "bounds": ["none (loop-free); numeric ranges are preconditions, see assumptions"],
    "assumptions": ["min <= max (enforced by GCTriggerSelector::validate at option parsing)",
                    "page counts (live, extra reserve, pending) <= 2^36; page statistics in {0} u [1, 2^36]; durations in {0} u [1e-6, 1e6] s: "
                    "outside these ranges `live + e as usize + extra + pending` can overflow (debug panic; wraps in release, where clamp still "
                    "restores the bounds)",
                    "single-writer frame condition checked by a source scan (an assumption-level check, not a proof)"],
    "trusted_base": ["kani::stub of std::time::Instant::now (time stamps are not read by the verified arithmetic)", "CBMC's IEEE-754 model incl. sqrt"],
    "not_covered": ["GC callbacks on_gc_start/release/end (need &'static MMTK): they only feed statistics, whose every value is covered by the symbolic stats"],
}

def scan_c36_sweep_shape(repo):
    """LargeObjectSpace::sweep_large_pages is assumed (not verified) by unit `los` to have the treadmill effect of the collect_*
    call it makes: check mechanically that its text still is `if sweep_nursery { for object in ..collect_nursery() { sweep(object) } }
    else { for object in ..collect_mature() { sweep(object) } }` with `sweep` releasing the object's pages."""
    import re, os
    src = open(os.path.join(repo, "src/policy/largeobjectspace.rs")).read()
    m = re.search(r"fn sweep_large_pages\(&mut self, sweep_nursery: bool\) \{(.*?)\n    \}\n", src, re.S)
    if not m:
        return False, "sweep_large_pages not found"
    body = re.sub(r"\s+", " ", re.sub(r"//[^\n]*", "", m.group(1)))
    shape = re.search(r"if sweep_nursery \{ for object in self\.treadmill\.collect_nursery\(\) \{ sweep\(object\);? \} \} else \{ "
                      r"for object in self\.treadmill\.collect_mature\(\) \{ sweep\(object\);? \} \}", body)
    releases = re.search(r"let sweep = \|object: ObjectReference\| \{.*self\.pr \.release_pages\(get_super_page\(object\.to_object_start::<VM>\(\)\)\);", body)
    ok = bool(shape and releases)
    return ok, "sweep_large_pages has the assumed shape (sweeps exactly what collect_nursery()/collect_mature() returns, releasing each object's pages): %s" % ok


PROPS["C36"] = {
    "level": "proof",
    "engine": "verus",
    "technique": "Verus requires/ensures + representation invariants on TreadMill's operations AND on the LargeObjectSpace functions that drive it "
                 "(initialize_object_metadata, prepare, trace_object, test_and_mark, release), mechanically extracted from /repo each run; whole-GC-cycle client lemmas over the contracts",
    "anchors": [("TreadMillSync", "src/util/treadmill.rs"), ("copy", "src/util/treadmill.rs"), ("flip", "src/util/treadmill.rs"),
                ("collect_nursery", "src/util/treadmill.rs"), ("add_to_treadmill", "src/util/treadmill.rs"),
                ("initialize_object_metadata", "src/policy/largeobjectspace.rs"), ("trace_object", "src/policy/largeobjectspace.rs"),
                ("test_and_mark", "src/policy/largeobjectspace.rs"), ("sweep_large_pages", "src/policy/largeobjectspace.rs")],
    "verus": ["treadmill", "los"],
    "scans": [scan_c36_sweep_shape],
    "functions": ["TreadMill::{add_to_treadmill, collect_nursery, collect_mature, copy, flip, is_to_space_empty, is_from_space_empty, "
                  "is_alloc_nursery_empty, is_collect_nursery_empty} (bodies extracted verbatim, re-homed on TreadMillSync)",
                  "LargeObjectSpace::{initialize_object_metadata, prepare, release, trace_object, test_and_mark, test_mark_bit, is_in_nursery, is_marked} "
                  "(bodies extracted; metadata accessor calls redirected to a contract-carrying field, see rule_firings)",
                  "client lemma gc_cycle (one LOS collection written against the treadmill contracts only)",
                  "client lemma los_gc_cycle (one LOS collection through the real prepare / trace_object* / release)"],
    "explanation": "Treadmill layer: representation invariant wf = the four sets are pairwise disjoint. Every operation has requires old.wf() (+ the "
                   "membership preconditions from its debug_assert!s) and ensures final.wf() together with the exact value of each of the "
                   "four sets (whole-view postcondition, frame included). LargeObjectSpace layer (unit los, on top of those contracts): invariants tie the "
                   "2-bit mark/nursery field of every object to the set holding it (nursery bit set <=> in a nursery set; between GCs every object carries the "
                   "current mark state; during a GC to_space = marked, from_space / collect_nursery = not yet marked). initialize_object_metadata files a fresh "
                   "object in the allocation nursery with the nursery bit, or in to_space when allocated as live; prepare flips mark state and sets and establishes the "
                   "GC invariant; trace_object on ANY treadmill object moves it to to_space and enqueues it exactly when it is in a collected set and not yet marked "
                   "(its call of TreadMill::copy meets copy's membership preconditions -- the debug_assert!s), and leaves everything unchanged otherwise; "
                   "test_and_mark returns true iff the masked old field differed and then leaves exactly the mark state; release re-establishes the mutator invariant. "
                   "Client lemma los_gc_cycle: for any sequence of treadmill objects presented to trace_object, in any order and with repetitions, a full-heap GC keeps "
                   "exactly the presented objects, a nursery GC keeps the mature objects plus the presented nursery objects, and all collected sets end empty. "
                   "Unbounded in the number of objects (loop invariants) and, by induction over cycles, histories. Vacuity: three canary functions with the same "
                   "preconditions and `ensures false` must fail on every run.",
    "bounds": ["none"],
    "assumptions": ["the Mutex acquisition is dropped by extraction: mutual exclusion of the operations is assumed, not verified",
                    "objects passed to initialize_object_metadata / add_to_treadmill are fresh (not already in the treadmill)",
                    "sequential semantics: &self methods mutating through atomics are rendered as &mut self; overlapping trace_object calls on the same object rely on C18",
                    "LargeObjectSpace::sweep_large_pages is NOT verified (for-loop over a HashSet by value, page release): assumed to have the treadmill effect of the collect_* call it makes; a mechanical source scan (scan_c36_sweep_shape) checks on every run that its text still has that shape, otherwise the run is undecided",
                    "termination of test_and_mark's retry loop is not verified"],
    "trusted_base": ["vstd specifications of std::collections::HashSet and core::mem::swap", "assume_specification of core::mem::take; axiom HashSet::default() is empty",
                     "axiom: ObjectReference obeys the hash key model; ObjectReference modelled as an opaque key",
                     "LosMeta (external_body): load_atomic / store_atomic / compare_exchange_metadata of LOCAL_LOS_MARK_NURSERY_SPEC as independent 2-bit fields -- the contract C20/C23 prove on the real accessors; axiom: a 2-bit field is <= 3",
                     "LogBits (external_body, opaque), Space::should_allocate_as_live, ObjectQueue::enqueue appends",
                     "the extraction rewrite rules listed in the evidence (rule_firings)"],
    "not_covered": ["enumerate_objects (dyn visitor)", "sweep_large_pages body and page release (FreeListPageResource)", "LargeObjectSpace::new and SFT/Space plumbing; vo_bit feature statements",
                    "concurrent tracers of one object"],
}

PROPS["C37"] = {
    "level": "proof",
    "engine": "verus",
    "technique": "Verus contracts on the extracted Compressor Transducer (exact state-update postconditions), on the extracted glue ForwardingMetadata::{calculate_offset_vector, forward} "
                 "(loop invariants over 512-byte blocks, modular against the contracts of the mark-bit scan and the offset table) + inductive lemmas over mark-bit sequences",
    "anchors": [("Transducer", "src/policy/compressor/forwarding.rs"), ("visit_mark_bit", "src/policy/compressor/forwarding.rs"),
                ("encode", "src/policy/compressor/forwarding.rs"), ("decode", "src/policy/compressor/forwarding.rs"),
                ("calculate_offset_vector", "src/policy/compressor/forwarding.rs"), ("forward", "src/policy/compressor/forwarding.rs")],
    "verus": ["compressor_fwd", "compressor_glue"],
    "functions": ["Transducer::{new, visit_mark_bit, encode, decode} (extracted verbatim)",
                  "ForwardingMetadata::{calculate_offset_vector, forward} (extracted; the scan closure is turned into a loop over the scan's contract, `for` over RegionIterator is desugared, see rule_firings)",
                  "Address: struct, ZERO, from_usize, as_usize, impl Add<ByteSize>, impl Sub<Address> (extracted verbatim, specified through vstd AddSpecImpl/SubSpecImpl)",
                  "lemmas: lemma_encode_decode, lemma_resume_from_block, lemma_run_prefix, lemma_live_before_bound/monotone, theorem_c37, lemma_scan_safe, lemma_scan_step, lemma_block_step; client_forward"],
    "explanation": "visit_mark_bit/encode/decode/new are proved to implement exactly the integer-level transition `step` and the "
                   "encode/decode functions (machine arithmetic: no-overflow preconditions; bit tricks discharged by bit_vector). Over that "
                   "spec, by induction on the number of objects: starting at the region start and visiting the first/last-word mark bits "
                   "of any well-formed layout (word-aligned, >= 2 words, ordered, non-overlapping, above the region start), the transducer's "
                   "`to` before object n equals region start + total size of the objects before it (lemma_run_prefix); hence forwarding "
                   "addresses are strictly ordered, non-overlapping and never above the original address (theorem_c37). "
                   "lemma_resume_from_block shows that resuming from the state cached at a 512-byte block start (decode(encode(..))) gives "
                   "the same result, also when the block boundary falls inside an object. GLUE (unit compressor_glue): the real calculate_offset_vector is proved, by a loop "
                   "invariant over its block loop and one over each mark-bit scan, to leave in every block's offset-vector entry the encoding of the transducer state on reaching that block "
                   "(for any number of blocks), with visit_mark_bit's no-overflow preconditions discharged from a scan-position invariant (`to` never runs ahead of the scan); the real forward "
                   "returns `to` after resuming from the cached entry and scanning up to the address; client_forward composes them: forward(start of object n) == region start + live bytes before it, "
                   "for every layout whose first/last-word bits are in the mark table. Unbounded in the number and size of objects and blocks. Vacuity: three canaries must fail on every run.",
    "bounds": ["none"],
    "assumptions": ["contract of the mark-bit scan: scan_non_zero_values presents exactly the set bits of [start, end) to its visitor in ascending order (C22 proves this on bounded windows) -- "
                    "inlined at the call site by the extraction rule compressor_scan_closure; mark bits are word-aligned addresses",
                    "the offset vector is an array of independent word fields (C20); Block / RegionIterator arithmetic (align_down: C33) as stated in the unit's ENV",
                    "the mark table holds exactly the first-word / last-word bits of a well-formed layout (established by CompressorSpace::trace_mark_object + mark_last_word_of_object: not verified)",
                    "region prefix below usize::MAX - 520; termination of the block loop not verified"],
    "trusted_base": ["usize is 64 bits (global size_of usize == 8)", "BYTES_IN_WORD == 8 re-declared in the unit prelude",
                     "vstd AddSpecImpl/SubSpecImpl linking of operator impls", "external_body environment: MarkTable (marks_in axioms: well-formed, split, empty; collect), OffsetTable, Block, CompressorRegion, RegionIterator<Block>, CalcFlag",
                     "the extraction rewrite rules listed in the evidence"],
    "not_covered": ["a restructured calculate_offset_vector / forward (different loop or closure shape) cannot be matched to the loop invariants and is reported as undecided (exit 2), not decided",
                    "ForwardingMetadata::{scan_marked_objects, mark_last_word_of_object, release}", "CompressorSpace's use of the forwarding addresses (whole-space)",
                    "three bounded Kani harnesses of the glue exist in kani/src/c37_glue.rs as experiments only (CBMC times out / aborts)"],
}

PROPS["C21"] = {
    "level": "proof",
    "anchors": [("break_bit_range", "src/util/metadata/side_metadata/ranges.rs"), ("zero_meta_bits", "src/util/metadata/side_metadata/global.rs"),
                ("set_meta_bits", "src/util/metadata/side_metadata/global.rs"), ("bulk_update_metadata", "src/util/metadata/side_metadata/global.rs"),
                ("bcopy_metadata_contiguous", "src/util/metadata/side_metadata/global.rs")],
    "kani": {"prefix": "c21_", "files": ["c21_bulk.rs", "side.rs"], "timeout_quick": 1200, "timeout_thorough": 3000},
    "functions": ["ranges::break_bit_range", "SideMetadataSpec::{zero_meta_bits, set_meta_bits, bulk_update_metadata, bzero_metadata, "
                  "bset_metadata, bcopy_metadata_contiguous}", "util::memory::{zero, set}"],
    "explanation": "(a) break_bit_range for all (start byte, start bit, end byte, end bit, direction) and any early-stop answer of the visitor: "
                   "<= 3 non-empty pieces, chained in order, union exactly the bit interval, sub-byte pieces inside one byte, early stop honoured "
                   "(loop-free, complete). (b) zero/set_meta_bits on every bit range of a 32-byte symbolic window: exactly the bits of the range "
                   "are written. (d) the real bzero/bset/bcopy on a symbolic spec (all widths, region sizes) and window position: fields k1..k2 "
                   "become 0 / all-ones / the source field, every other field of the window (symbolic index) unchanged, source unchanged. "
                   "The tiling proof (a) is unbounded in the range length; the memory effect is checked on ranges up to the 32-byte window.",
    "bounds": ["memory effect checked on ranges inside a 32-byte metadata window (memset/copy loops unwound to 34 >= 32+1, unwinding assertions on); "
               "break_bit_range's tiling is proved for all lengths, and for longer ranges only the middle piece's memset/memmove grows"],
    "assumptions": ["byte addresses < 2^60 (bit index 8*addr does not overflow)",
                    "unaligned start/size: the region containing `start` is included and the one containing `start+size` is not (as the code documents)",
                    "window placement assumptions of C20"],
    "trusted_base": ["kani::stub of global_side_metadata_base_address", "std::ptr::write_bytes / ptr::copy as modelled by CBMC"],
    "not_covered": ["32-bit chunked (discontiguous) update path", "extreme_assertions sanity mirror"],
}

PROPS["C08"] = {
    "level": "other",
    "technique": "Kani proof harnesses on the real VO-bit lookups; find_object_from_internal_pointer verified modularly against the contract of find_prev_non_zero_value that C22 discharges (CBMC); function level, bounded window",
    "anchors": [("find_object_from_internal_pointer", "src/util/metadata/vo_bit/mod.rs"), ("is_vo_bit_set_for_addr", "src/util/metadata/vo_bit/mod.rs"),
                ("is_internal_ptr_from_vo_bit", "src/util/metadata/vo_bit/mod.rs"), ("find_prev_non_zero_value", "src/util/metadata/side_metadata/global.rs")],
    "kani": {"prefix": "c08_", "files": ["c08_interior.rs", "side.rs", "mmapper.rs", "vm.rs"], "timeout_quick": 1800, "timeout_thorough": 3600},
    "functions": ["vo_bit::{is_vo_bit_set_for_addr, is_vo_bit_set_inner, find_object_from_internal_pointer, is_internal_ptr_from_vo_bit, is_internal_ptr, get_object_ref_for_vo_addr}",
                  "SideMetadataSpec::find_prev_non_zero_value [used through its contract: first non-zero region walking down from data_addr within the limit; discharged by C22]",
                  "SideMetadataSpec::{is_mapped, load_atomic}"],
    "explanation": "FUNCTION LEVEL (the VO-bit kernel behind is_mmtk_object / find_object_from_internal_pointer), on a symbolic VO-bit table of a 4 KiB data window at a symbolic heap "
                   "position: is_vo_bit_set_for_addr(a) is Some(a) iff the bit of a's word is set, for every word-aligned a; find_object_from_internal_pointer(p, n) for every p of "
                   "the window, every n in 8..=64 and a symbolic object size returns Some(o) only if o is a valid object at most n bytes below p, no valid object lies between o and p, and "
                   "p < start(o) + size(o); returns None only if no valid object in range contains p; it does not write metadata. "
                   "find_prev_non_zero_value is used through its contract (a contract stub instantiated at a symbolic witness word), which C22 discharges for the fast path, the "
                   "region-by-region path and therefore their debug cross-check. Space dispatch through the SFT, LargeObjectSpace's page-wise lookup, unmapped addresses and larger limits are "
                   "not covered; level 'other'.",
    "bounds": ["VO-bit table window of 64 bytes (4 KiB of heap)", "search limit 8..=64 bytes", "object size 8..=4096 bytes"],
    "assumptions": ["all addresses of the window are mapped (harness mmapper)", "ObjectModel::get_current_size returns the object's size (symbolic)",
                    "limits below one word with an unaligned pointer are the recorded C22 known finding and are excluded"],
    "trusted_base": ["kani::stub of global_side_metadata_base_address and create_mmapper", "contract stub contract_find_prev of SideMetadataSpec::find_prev_non_zero_value (backed by C22's harnesses)"],
    "not_covered": ["memory_manager::is_mmtk_object / find_object_from_internal_pointer dispatch through the SFT", "LargeObjectSpace::find_object_from_internal_pointer (page-wise)",
                    "addresses outside MMTk memory / unmapped metadata", "search limits above 64 bytes"],
}

PROPS["C17"] = {
    "level": "other",
    "technique": "Kani proof harnesses on the real object_forwarding functions for every metadata placement of the harness binding family (CBMC); sequential kernel only",
    "anchors": [("attempt_to_forward", "src/util/object_forwarding.rs"), ("forward_object", "src/util/object_forwarding.rs"),
                ("spin_and_get_forwarded_object", "src/util/object_forwarding.rs"), ("read_forwarding_pointer", "src/util/object_forwarding.rs"),
                ("write_forwarding_pointer", "src/util/object_forwarding.rs")],
    "kani": {"prefix": "c17_", "files": ["c17_forwarding.rs", "obj.rs", "side.rs", "vm.rs", "interference.rs"], "timeout_quick": 1500, "timeout_thorough": 2400},
    "functions": ["object_forwarding::{attempt_to_forward, get_forwarding_status, forward_object, write_forwarding_pointer, read_forwarding_pointer, "
                  "spin_and_get_forwarded_object, clear_forwarding_bits, is_forwarded, is_forwarded_or_being_forwarded, forwarding_bits_offset_in_forwarding_pointer}"],
    "explanation": "SEQUENTIAL KERNEL ONLY. Each protocol step is verified as a state transformer on the forwarding bits / forwarding word for four placements "
                   "(bits on the side at a symbolic table position; bits = low bits of the pointer word; bits in the TOP byte of the pointer word; bits in the header byte below the reference) with all other header and "
                   "side-table bits symbolic: attempt_to_forward returns the previous bits and moves 00 -> BEING_FORWARDED touching nothing else; a later tracer gets 10/11, "
                   "never 00, and changes nothing (so for any sequential order of N tracers exactly one copies); forward_object calls ObjectModel::copy exactly once, leaves "
                   "FORWARDED, and read_forwarding_pointer / spin_and_get_forwarded_object (stale 10 or 11) return exactly the winner's reference for every reference "
                   "representable under FORWARDING_POINTER_MASK; with bits 00 a tracer gets the unmoved object; only the forwarding bits and the pointer word (its masked part when "
                   "the bits live elsewhere) change. INTERFERENCE CONTRACT: attempt_to_forward is additionally verified against a rely/guarantee-style contract of "
                   "MetadataSpec::compare_exchange_metadata that allows finitely many spurious failures reporting the unchanged field value (what a byte-wide cmpxchg does when another "
                   "thread changes a neighbouring field of the byte): it reports 'not forwarded' only if this very call moved 00 -> BEING_FORWARDED. "
                   "Not decided by this family and therefore assumed: atomicity of a single CAS / store and genuinely overlapping interleavings.",
    "bounds": ["non-overlapping executions only; four metadata layouts"],
    "assumptions": ["atomicity of each RMW and memory orderings (sequential semantics)", "new references fit FORWARDING_POINTER_MASK (8-byte aligned, below 2^56)",
                    "ObjectModel::copy returns a valid reference (symbolic) and does not touch the old object's forwarding state"],
    "trusted_base": ["kani::stub of global_side_metadata_base_address", "core::sync::atomic as modelled by Kani/CBMC",
                     "contract stub interference::cas_contract of MetadataSpec::compare_exchange_metadata (interference harnesses only; the sequential harnesses run the real CAS, whose field semantics C20/C23 prove)"],
    "not_covered": ["overlapping interleavings (one copier / no torn reads under races)", "CopySpace / ImmixSpace trace_object callers"],
}

PROPS["C18"] = {
    "level": "other",
    "technique": "Kani proof harnesses on the real mark/log/pin transition functions for every metadata placement of the harness binding family (CBMC), plus a Verus client lemma over the extracted LargeObjectSpace::test_and_mark; sequential kernel only",
    "anchors": [("test_and_mark", "src/util/metadata/mark_bit.rs"), ("pin_object", "src/util/metadata/pin_bit.rs"), ("log_object", "src/plan/barriers.rs"),
                ("compare_exchange_metadata", "src/util/metadata/global.rs")],
    "kani": {"prefix": "c18_", "files": ["c18_transitions.rs", "obj.rs", "side.rs", "vm.rs", "interference.rs"], "timeout_quick": 900, "timeout_thorough": 2400,
             "features_quick": [["object_pinning"]], "features_thorough": [["object_pinning"], []],
             "harness_features": {"c18_pin_side": ["object_pinning"], "c18_pin_header_hi": ["object_pinning"], "c18_pin_header_lo": ["object_pinning"]}},
    "verus": ["los"],
    "functions": ["LargeObjectSpace::test_and_mark (Verus unit los, client lemma los_mark_exactly_once: of two consecutive attempts at most the first succeeds, the second changes nothing)", "MarkState::{new, is_marked, test_and_mark, on_global_release}", "VMLocalMarkBitSpec::{mark, is_marked}",
                  "VMLocalPinningBitSpec::{pin_object, unpin_object, is_object_pinned}", "ObjectBarrier::{log_object, object_is_unlogged}",
                  "VMGlobalLogBitSpec::{is_unlogged, mark_as_unlogged}", "MetadataSpec::{load, load_atomic, store_atomic, compare_exchange_metadata} (header and side dispatch)"],
    "explanation": "SEQUENTIAL KERNEL ONLY. For each transition (mark via MarkState, with and without the header-state flip of on_global_release; log via "
                   "ObjectBarrier::log_object; pin / unpin) and each metadata placement (on the side at a symbolic field position; header bits above the forwarding word; header byte "
                   "below the object reference), with all surrounding header and side-table bits symbolic: the first caller observes the transition as its own iff the object "
                   "was in the source state, the final state is the transitioned state, no bit outside the field changes, and an immediately following second call returns false "
                   "and changes nothing. The load-then-CAS retry loops exit after one iteration without interference (unwinding assertion on). INTERFERENCE CONTRACT: "
                   "MarkState::test_and_mark and ObjectBarrier::log_object are additionally verified against a contract of compare_exchange_metadata that allows finitely many spurious "
                   "failures (a neighbouring field of the byte changed concurrently): the caller is told the transition was its own iff this call performed it. What this family cannot decide, and "
                   "what therefore remains assumed: that each compare-exchange is one atomic step and the outcome under genuinely overlapping executions (Kani has no threads).",
    "bounds": ["non-overlapping executions only (two sequential callers); three metadata layouts"],
    "assumptions": ["atomicity of each RMW and memory orderings (sequential semantics)", "each caller runs to completion before the next starts"],
    "trusted_base": ["kani::stub of global_side_metadata_base_address", "core::sync::atomic as modelled by Kani/CBMC",
                     "contract stub interference::cas_contract of MetadataSpec::compare_exchange_metadata (interference harnesses only)"],
    "not_covered": ["overlapping interleavings of the racing threads", "ImmixSpace::attempt_mark (needs a space instance)",
                    "mark_byte_as_unlogged (documented to touch neighbouring objects' bits)"],
}

PROPS["C24"] = {
    "level": "other",
    "technique": "Kani proof harnesses over the real spec tables, side_first/side_after constructors and reserved-range computation (CBMC); per-configuration activation sets are not under contract",
    "anchors": [("side_metadata_offset_after", "src/util/metadata/side_metadata/global.rs"), ("define_side_metadata_specs", "src/util/metadata/side_metadata/spec_defs.rs"),
                ("side_first", "src/vm/object_model.rs"), ("side_after", "src/vm/object_model.rs"), ("total_side_metadata_bytes", "src/util/metadata/side_metadata/layout.rs")],
    "kani": {"prefix": "c24_", "files": ["c24_layout.rs"], "timeout_quick": 900, "timeout_thorough": 2400, "features_quick": [["object_pinning"]], "features_thorough": [["object_pinning"], []]},
    "functions": ["side_metadata_offset_after", "SideMetadataSpec::upper_bound_offset", "helpers::metadata_address_range_size / log_data_meta_ratio",
                  "the core spec tables of spec_defs.rs (all 3 global and 16 local constants)", "VM*Spec::{side_first, side_after, as_spec} for the six per-object metadata kinds",
                  "layout::{set_vm_side_metadata_specs, total_side_metadata_bytes}"],
    "explanation": "(i, complete) side_metadata_offset_after(s) clears s's whole address range and is the next word boundary, for every well-formed spec. (ii) the real core tables are "
                   "chained with it from their base offsets, every pair of the same kind is disjoint and the local table lies above the global one (symbolic pair of indices over the real constants). "
                   "(iii) for every subset of the local per-object VM specs declared on the side and EVERY declaration order (symbolic permutation, built with the real side_first/side_after), "
                   "the specs are pairwise disjoint, lie above every core local spec and below the reserved size computed by the real registration code; the side log bit lies above the core "
                   "global specs and inside the reserved range. Cross-kind: on 64-bit a side VMGlobalLogBitSpec starts where the core local table starts and therefore shares addresses with the first "
                   "core local tables; the harness proves that it shares none with the tables of the policies a log-bit plan can instantiate (ImmixSpace: IX_*; native mark-sweep: MS_BLOCK_* .. "
                   "MS_THREAD_FREE). Which policies one configuration instantiates is decided by plan/space constructors that cannot be brought under a contract, so 'log-bit plans use neither "
                   "MallocSpace nor the Compressor tables' is an unchecked assumption; level 'other'.",
    "bounds": ["none for (i); (ii)-(iii) range over this codebase's finite spec inventory"],
    "assumptions": ["no plan configuration activates a side VMGlobalLogBitSpec together with the MallocSpace or Compressor tables (reading the plan constructors: only MarkSweep with malloc_mark_sweep uses MallocSpace, only Compressor uses the COMPRESSOR_* tables, and neither registers a log bit)",
                    "VM bindings declare side specs only through side_first/side_after chains of one kind"],
    "trusted_base": ["the list of core spec constants in c24_layout.rs mirrors spec_defs.rs (a spec added to spec_defs.rs but not to the harness is not checked; the chaining assertions detect reordering and removal)"],
    "not_covered": ["per-plan SideMetadataContext contents", "32-bit chunked local layout"],
}

PROPS["C26"] = {
    "level": "other",
    "technique": "Kani: inductive-step proof harnesses over every table satisfying an executable representation invariant (6-unit lists), plus complete bit-field accessor harnesses, on the real FreeList code (CBMC)",
    "anchors": [("alloc", "src/util/freelist.rs"), ("free", "src/util/freelist.rs"), ("__coalesce", "src/util/freelist.rs"), ("add_to_free", "src/util/freelist.rs"),
                ("IntArrayFreeList", "src/util/int_array_freelist.rs")],
    "kani": {"prefix": "c26_", "files": ["c26_freelist.rs"], "timeout_quick": 1500, "timeout_thorough": 3600},
    "functions": ["FreeList::{alloc, alloc_from_unit, free, size, initialize_heap, add_to_free, __alloc, __split, __coalesce, __remove_from_free}",
                  "FreeList::{get/set_next, get/set_prev, get/set_size, get/set_free, set_sentinel, get_left, get_right, is_coalescable, set/clear_uncoalescable, "
                  "is_multi, is_free, get/set_lo_entry, get/set_hi_entry}", "IntArrayFreeList::{new, from_parent, head, heads, get_entry, set_entry}"],
    "explanation": "Layer 1 (complete): every bit-field accessor on an arbitrary table: setters change only their bits of their entries, getters invert setters on "
                   "the documented ranges, head links decode to the list's head. Layer 2 (inductive step): for EVERY table of a 6-unit list with 1 or 2 heads that satisfies "
                   "the executable representation invariant wf (runs tile [0,units) with consistent boundary tags; interior units carry no boundary flag; sentinels; each head's "
                   "list is a cyclic doubly linked list of free run starts; every free run is on exactly one list) -- not only tables reached by a sampled history -- "
                   "one alloc / alloc_from_unit / free / set|clear_uncoalescable preserves wf and changes the abstract view (sequence of runs with size, free flag, owning list, "
                   "boundary flag) exactly as specified: alloc takes a free run of this list that fits, splits off a free coalescable remainder, fails iff no run of the list fits "
                   "(and then changes nothing); free marks the run free and merges it with exactly the free neighbours not separated by an uncoalescable boundary; size reports the "
                   "run length; all other runs are unchanged (symbolic index). The constructor establishes wf with the documented grain-sized runs. By induction on the history this "
                   "covers alloc/free sequences of ANY length; the remaining bound is the list size (6 units, <= 2 heads), hence level 'other'.",
    "bounds": ["list size: 6 units; 1 head in the quick tier, 1 and 2 heads in the thorough tier for alloc / alloc_from_unit / free (constructor, child list and bit fields: both tiers) (loops unwound to 20, unwinding assertions on); no bound on the history length (inductive step)"],
    "assumptions": ["free(u) is called on the first unit of an allocated run (the code's own debug_assert) and alloc_from_unit on the first unit of a run",
                    "runs merged by free belong to the calling list (lists sharing a table are separated by uncoalescable boundaries)",
                    "set_uncoalescable / clear_uncoalescable are applied to first units of runs"],
    "trusted_base": ["the executable wf / view oracle in c26_freelist.rs (reads the raw table, independent of the accessors)"],
    "not_covered": ["lists with more than 6 units or more than 2 heads", "RawMemoryFreeList's table growth (C27)", "first-fit order of alloc (not part of the property)"],
}

PROPS["C27"] = {
    "level": "other",
    "technique": "Kani proof harnesses on the real RawMemoryFreeList growth code with the OS mmap call stubbed by a recorder (CBMC): growth/capacity arithmetic complete and memory-free; growth on a real table as concrete scenarios (thorough tier)",
    "anchors": [("grow_freelist", "src/util/raw_memory_freelist.rs"), ("grow_list_by_blocks", "src/util/raw_memory_freelist.rs"),
                ("raise_high_water", "src/util/raw_memory_freelist.rs"), ("current_capacity", "src/util/raw_memory_freelist.rs")],
    "kani": {"prefix": "c27_", "files": ["c27_rawfreelist.rs"], "timeout_quick": 900, "timeout_thorough": 3600},
    "functions": ["RawMemoryFreeList::{new, raise_high_water, current_capacity, units_per_block, units_in_first_block, size_in_pages, default_block_size}",
                  "RawMemoryFreeList::{grow_freelist, grow_list_by_blocks, get_entry, set_entry, alloc} (thorough tier, concrete scenarios on a real table)"],
    "explanation": "(complete, loop-free, no table memory) For every base address, table size 1..2^20 pages, 1..4 heads, block sizes 1/2/3/16 pages: raise_high_water maps exactly "
                   "[old high water, new high water), new high water = min(old + blocks*block, limit), never beyond the limit, for two consecutive calls (general state); "
                   "current_capacity() never exceeds the number of unit slots of the mapped table minus the head sentinels and the bottom sentinel (so growth never writes a sentinel outside "
                   "the mapped table); raising the number of blocks grow_freelist computes for a request makes the capacity cover the request -- so the list cannot get stuck below its "
                   "configured maximum -- and a fully mapped table holds max_units. (thorough tier, concrete scenarios) the real grow_freelist / alloc on a zeroed table buffer: "
                   "3-page table with 2-page blocks (max 1534 units, steps 1022 + 512) and 2-page table with 1-page blocks: both growth steps succeed, current_units reaches the maximum, "
                   "a further growth is refused, mapped ranges are contiguous and below the limit, all grown units are allocatable. Symbolic unit counts on a real 12 KiB table exhaust "
                   "CBMC's memory (40 GB), so the table-initialisation part is not proved for all unit counts; level 'other'.",
    "bounds": ["arithmetic: none beyond table size <= 2^20 pages, heads <= 4, block size in {1,2,3,16} pages", "table initialisation: two concrete growth scenarios (thorough tier only)"],
    "assumptions": ["mmap returns zeroed memory at the requested address (the stub records the request)", "pages_per_block <= table pages (what default_block_size guarantees)"],
    "trusted_base": ["kani::stub of RawMemoryFreeList::mmap (OS::dzmmap)"],
    "not_covered": ["grow_list_by_blocks' sentinel / free-run initialisation for symbolic unit counts (free-list behaviour itself is C26)", "Map64::create_parent_freelist's sizing arithmetic (f64)"],
}

PROPS["C28"] = {
    "level": "other",
    "technique": "Kani proof harnesses (inductive step over two consecutive symbolic requests) on the real PageAccounting / MonotonePageResource / Map64 (CBMC)",
    "anchors": [("PageAccounting", "src/util/heap/accounting.rs"), ("alloc_pages", "src/util/heap/monotonepageresource.rs"), ("commit_pages", "src/util/heap/pageresource.rs"),
                ("allocate_contiguous_chunks", "src/util/heap/layout/map64.rs")],
    "kani": {"prefix": "c28_", "files": ["c28_pageresource.rs", "vm.rs"], "timeout_quick": 1500, "timeout_thorough": 3600},
    "functions": ["PageAccounting::{new, reserve_and_commit, reserve, clear_reserved, commit, release, reset, get_reserved_pages, get_committed_pages}",
                  "PageResource::{reserve_pages, clear_request, get_new_pages, commit_pages, reserved_pages, committed_pages} (default methods)",
                  "MonotonePageResource::{new_contiguous, new_discontiguous, alloc_pages, cursor}", "CommonPageResource::{new, grow_discontiguous_space}",
                  "Map64::{new, insert, allocate_contiguous_chunks, get_descriptor_for_address}", "policy::space::required_chunks"],
    "explanation": "PageAccounting: every operation changes the two counters by exactly the stated amounts and the decrementing ones do not underflow under their documented "
                   "preconditions (complete, loop-free). MonotonePageResource, contiguous: for a symbolic page-aligned space and two consecutive symbolic requests (the state "
                   "after the first grant is the general reachable state cursor = start + k pages <= sentinel, so the second step is the inductive step): each grant is page-aligned, "
                   "inside [start, start+bytes), disjoint from the previous grant (hence, by induction, all live grants are pairwise disjoint), the request fails iff it does not fit, "
                   "reserved == committed == pages granted after each grant and a failed request leaves committed unchanged. Discontiguous over the real Map64 (default 64-bit layout, any "
                   "space index): grants are page-aligned, inside the space of the descriptor and resolve to that descriptor in the VM map, disjoint, counters exact; a third harness runs THREE consecutive symbolic requests, so that pages "
                   "bumped out of a chunk the resource never obtained from the VM map collide with the chunk the next growth obtains (pairwise disjointness of all three grants). Monotone resources never release individual grants, so 'live grants' = all grants.",
    "bounds": ["two consecutive requests (inductive step), three for the discontiguous growth harness; request sizes <= 2^25 pages (contiguous) / one chunk = 1024 pages (discontiguous)"],
    "assumptions": ["single-threaded histories (the Mutex is taken but mutual exclusion is not what is verified)"],
    "trusted_base": ["std::sync::Mutex as modelled by Kani"],
    "not_covered": ["FreeListPageResource and BlockPageResource (need mmapper, VM threads, live spaces); their substrates are C26 (free lists) and C19 (block pool)",
                    "release paths (reset / reset_cursor / release_pages)", "multi-threaded histories", "32-bit Map32 discontiguous chunk lists"],
}

PROPS["C31"] = {
    "level": "proof",
    "anchors": [("addr_to_index", "src/policy/sft_map.rs"), ("index_to_space_range", "src/policy/sft_map.rs"), ("has_sft_entry", "src/policy/sft_map.rs"),
                ("space_index", "src/util/heap/layout/map64.rs"), ("get_descriptor_for_address", "src/util/heap/layout/map64.rs")],
    "kani": {"prefix": "c31_", "files": ["c31_sft.rs", "layout.rs"], "timeout_quick": 900, "timeout_thorough": 2400},
    "functions": ["SFTSpaceMap::{new, addr_to_index, index_to_space_range, has_sft_entry}", "Map64::{new, space_index, is_space_start, get_descriptor_for_address}",
                  "VMLayout::{address_mask, space_shift_64, space_mask_64, new_64bit}"],
    "explanation": "Index arithmetic only (table contents are whole-system and not claimed). For every usize address: the SFT space-map slot index is "
                   "inside the table built by the real SFTSpaceMap::new() (so get_unchecked is in bounds); has_sft_entry holds exactly for addresses inside "
                   "spaces 1..15; an address inside space i resolves to slot i, and Map64::space_index agrees; addresses below the first space resolve to slot 0; "
                   "Map64::get_descriptor_for_address never indexes outside its descriptor table. Proved for every layout satisfying VMLayout::validate "
                   "(contiguous) and for the real default 64-bit layout. Loop-free apart from the table constructors (32 / 16 iterations, code constants).",
    "bounds": ["none (full-domain symbolic address; constructor loops bounded by code constants 32 and 16)"],
    "assumptions": ["layouts: those accepted by VMLayout::validate with force_use_contiguous_spaces, heap inside the 47-bit address space"],
    "trusted_base": ["kani::stub of vm_layout() by a symbolic VMLayout (any-layout harnesses); the default-layout harnesses use the real static"],
    "not_covered": ["SFT table contents / which space owns an address / is_in_mmtk_spaces (whole-system)", "SFTSparseChunkMap and SFTDenseChunkMap (32-bit / malloc configurations)",
                    "Map32", "SFTRefStorage load/store (128-bit atomics)"],
}

PROPS["C34"] = {
    "level": "other",
    "technique": "Kani proof harnesses on the real immix block-state encoding, line arithmetic, hole search and line marking (CBMC); loops bounded by the code constant Block::LINES",
    "anchors": [("get_next_available_lines", "src/policy/immix/immixspace.rs"), ("mark_lines_for_object", "src/policy/immix/line.rs"),
                ("BlockState", "src/policy/immix/block.rs"), ("get_index_within_block", "src/policy/immix/line.rs")],
    "kani": {"prefix": "c34_", "files": ["c34_immix.rs", "side.rs", "vm.rs"], "timeout_quick": 1800, "timeout_thorough": 3600,
             "features_thorough": [[], ["immix_smaller_block"]],
             # any-cursor hole search and block-sized objects finish only for 32-line blocks (40 and 27 minutes); with 128-line blocks CBMC needs more than an hour
             "harness_features": {"c34_hole_search_deep": ["immix_smaller_block"], "c34_mark_lines_for_object_deep": ["immix_smaller_block"]}},
    "functions": ["impl From<u8> for BlockState / From<BlockState> for u8, BlockState::is_reusable", "Block::{get_state, set_state, line_mark_table}",
                  "Line::{block, get_index_within_block, mark, is_marked, mark_lines_for_object}", "ImmixSpace::get_next_available_lines (run on explicit line states through a hook)",
                  "MetadataByteArrayRef::{new, get, len}"],
    "explanation": "Complete (all inputs; loops bounded by the code constant Block::LINES = 128, unwinding assertions on): every byte decodes to a block state that encodes "
                   "back to it and every state the sweeper produces round-trips; line/block index arithmetic for every line address; hole search on a fully symbolic line-mark "
                   "table of one block with symbolic block address, cursor (in the last 24 lines of a 128-line block; anywhere in a 32-line block in the thorough tier), current line mark state and last-full-GC state (both in 1..=127): the result is None iff no line "
                   "at/after the cursor is available, otherwise the first maximal run of available lines -- in particular no returned line carries the current or the last "
                   "full-GC mark; marking the lines of an object marks every line it spans, changes no other line mark and returns the number of newly marked lines "
                   "(objects up to 1 KiB; up to a whole block for 32-line blocks in the thorough tier; also for a binding whose object reference lies 16 bytes above the object start, where the line holding only the header must be marked); block state set/get through the side table touches only that block's byte. "
                   "NOT reached: the state-cycling arithmetic inside ImmixSpace::prepare/release (needs a live space), so the >127-GC wrap argument rests on the unchecked assumption "
                   "that prepare keeps line_mark_state in 1..=127 and release copies it to line_unavail_state; level 'other'.",
    "bounds": ["Block::LINES = 128 (code constant; 32 with immix_smaller_block in the thorough tier)", "128-line blocks: hole-search cursor in the last 24 lines of the block, object size <= 1024 bytes for mark_lines_for_object (both tiers); 32-line blocks (immix_smaller_block, thorough tier): any cursor, objects up to a block"],
    "assumptions": ["ImmixSpace::prepare keeps line_mark_state within 1..=127 and release copies it into line_unavail_state (not under contract)",
                    "Block::sweep resets stale line marks often enough for the wrap-around (not under contract)"],
    "trusted_base": ["kani::stub of global_side_metadata_base_address", "hook get_next_available_lines_with_states builds an ImmixSpace of which only the two line-state fields are initialised"],
    "not_covered": ["ImmixSpace::prepare / release / Block::sweep (need a live space, scheduler, chunk map)", "ImmixAllocator's use of the hole", "defragmentation"],
}

PROPS["C40"] = {
    "level": "other",
    "technique": "Kani bounded proof harness (input length <= 5 quick / 7 thorough) over the real RevisitableGroupBy / RevisitableGroup iterators (CBMC); bounded stand-in, not counted as proved",
    "anchors": [("RevisitableGroupBy", "src/util/rust_util/rev_group.rs"), ("RevisitableGroup", "src/util/rust_util/rev_group.rs"),
                ("revisitable_group_by", "src/util/rust_util/rev_group.rs")],
    "kani": {"prefix": "c40_", "files": ["c40_revgroup.rs"], "timeout_quick": 900, "timeout_thorough": 2400},
    "functions": ["RevisitableGroupByForIterator::revisitable_group_by", "<RevisitableGroupBy as Iterator>::next", "<RevisitableGroup as Iterator>::next "
                  "(instantiated on slice::Iter<u8>)"],
    "explanation": "BOUNDED (input length <= 5 quick / 7 thorough), complete within the bound: the real iterators are run over a slice of symbolic bytes of symbolic "
                   "length with key function x & m for a symbolic mask m (so every partition shape of <= 5 (7) items into runs occurs). Checked: the items yielded by the groups, in order, are exactly the input; each item's key equals "
                   "its group's reported key; each group is non-empty; reported len == number of items the group yields; adjacent groups have different "
                   "keys; empty input yields no group. The same obligations are checked with an underlying iterator whose size_hint is INEXACT "
                   "(slice.iter().copied().filter(..), symbolic filter mask; input length <= 3 in both tiers -- 5 items do not finish within 25 minutes), through a generic driver hook. Generic `Iterator + Clone` code with FnMut closures is outside what Verus accepts for extraction, so the "
                   "length bound remains and the level is 'other'.",
    "bounds": ["input length <= 5 in the quick tier and <= 7 in the thorough tier (loops unwound to length + 3, unwinding assertions on); filtered-iterator harness: <= 3", "item type u8, key type u8 (the code is parametric in both)"],
    "assumptions": ["key functions are pure (the harness' key is x & m)"],
    "trusted_base": ["core::slice::Iter / core::iter::Filter / Copied as compiled by Kani"],
    "not_covered": ["inputs longer than 7 items (5 in the quick tier)", "impure key functions", "the Flatten-based instantiation used by the mmapper (a harness exists but CBMC does not finish it within 15 minutes even for 3 items; it is kept as an experiment and is not part of the check)"],
}

PROPS["C19"] = {
    "level": "other",
    "technique": "Kani bounded proof harnesses on the real BlockQueue / BlockPool driven by one thread (CBMC); sequential histories only, bounded stand-in",
    "anchors": [("BlockQueue", "src/util/heap/blockpageresource.rs"), ("BlockPool", "src/util/heap/blockpageresource.rs"), ("push_relaxed", "src/util/heap/blockpageresource.rs"),
                ("flush_all", "src/util/heap/blockpageresource.rs")],
    "kani": {"prefix": "c19_", "files": ["c19_blockpool.rs"], "timeout_quick": 1200, "timeout_thorough": 5400},
    "functions": ["BlockQueue::{new, push_relaxed, pop, len, is_empty, iterate_blocks, replace, get_entry, set_entry}",
                  "BlockPool::{new, push, pop, flush, flush_all, len, iterate_blocks, add_global_array}"],
    "explanation": "BOUNDED, SEQUENTIAL HISTORIES ONLY. BlockQueue: push adds exactly the block, pop returns a held block and removes it, None iff empty, "
                   "len == blocks held, iterate yields exactly the held blocks, replace exchanges the contents of the two queues without loss; at CAPACITY (256, code constant, concrete "
                   "loop) the next push is refused and returns the block. BlockPool with two workers and three symbolic blocks pushed by workers 0, 1, 0: len == blocks held, "
                   "iterate_blocks yields each once, worker-local blocks are not handed out before a flush, after flush_all every held block is popped exactly once, only pushed blocks "
                   "are popped, and the pool is then empty. Overflow of a full worker-local queue inside BlockPool::push (THOROUGH tier only, about half an hour of CBMC): starting from a pool assembled "
                   "by a construction-only hook around a queue filled through the real push_relaxed, the 257th push leaves len == 257, every held block (symbolic witness) and the new block held exactly once, "
                   "and the handed-over queue poppable without a flush. A flush next to an already full global array is NOT covered (c19_pool_flush_next_to_full_array_exp aborts at the memory cap). Concurrent push/pop/flush histories -- the quantifier of the property -- are outside this family (Kani has no threads).",
    "bounds": ["sequential histories: 3 symbolic blocks / 2 workers", "BlockQueue::CAPACITY = 256 (code constant) for the queue-level capacity harness"],
    "assumptions": ["atomicity of the cursor fetch_update and the RwLock (sequential semantics)", "push_relaxed is only called by the owning worker (its safety contract)"],
    "trusted_base": ["kani::stub of scheduler::worker::current_worker_ordinal (thread-local) and of core::hint::spin_loop (pause intrinsic)", "spin::RwLock as compiled by Kani", "hook pool_with_local_queue: constructs a BlockPool around a pre-filled queue (count = its length); construction only"],
    "not_covered": ["all concurrent histories", "BlockPool::push's overflow path in the QUICK tier (thorough tier only)", "flush / flush_all when an array of the global list is full or nearly full (seed C19-c)", "BlockPageResource::{alloc_pages, release_block} (need a VM map, mmapper and VM threads)"],
}

PROPS["C22"] = {
    "level": "other",
    "technique": "Kani: complete bit-level helper proofs, bounded-window proofs of the byte-scanning loops, and a MODULAR proof of the fast search functions against the scanners' contracts (contract stubs), on the real side-metadata code (CBMC)",
    "anchors": [("find_prev_non_zero_value", "src/util/metadata/side_metadata/global.rs"), ("find_next_non_zero_value", "src/util/metadata/side_metadata/global.rs"),
                ("scan_non_zero_values", "src/util/metadata/side_metadata/global.rs"),
                ("find_last_non_zero_bit_in_metadata_bytes", "src/util/metadata/side_metadata/helpers.rs"),
                ("scan_non_zero_bits_in_metadata_bytes", "src/util/metadata/side_metadata/helpers.rs")],
    "kani": {"prefix": "c22_", "files": ["c22_search.rs", "side.rs", "mmapper.rs"], "timeout_quick": 1800, "timeout_thorough": 5400},
    "functions": ["helpers::find_last_non_zero_bit / find_first_non_zero_bit (u8, usize)", "helpers::find_{last,first}_non_zero_bit_in_metadata_bits, scan_non_zero_bits_in_metadata_bits",
                  "helpers::scan_non_zero_bits_in_metadata_word", "helpers::find_{last,first}_non_zero_bit_in_metadata_bytes [contract: result is the extreme set bit of the byte range / NotFound iff all zero]",
                  "helpers::scan_non_zero_bits_in_metadata_bytes", "SideMetadataSpec::find_prev_non_zero_value_fast / find_next_non_zero_value_fast (checked against the scanners' contracts)",
                  "SideMetadataSpec::find_prev_non_zero_value_simple / find_next_non_zero_value_simple", "SideMetadataSpec::scan_non_zero_values_fast",
                  "helpers::{address_to_contiguous_meta_address, meta_byte_lshift, align_metadata_address, contiguous_meta_address_to_address}, ranges::break_bit_range as used by the searches"],
    "explanation": "Complete (all inputs): find_last/first_non_zero_bit on u8/usize values and bit ranges; the in-byte find/scan on a symbolic byte; scan of a metadata word "
                   "(visits exactly the set bits ascending; loop bounded by the word width). Bounded windows (complete within them): the byte-scanning loops "
                   "find_{last,first}_non_zero_bit_in_metadata_bytes on every [start,end) inside a 24-byte fully symbolic buffer (byte->word->byte stepping at every alignment) and "
                   "scan_non_zero_bits_in_metadata_bytes on a 16-byte buffer: the reported bit is set, inside the range, and no set bit precedes it in scan order (symbolic witness); "
                   "NotFound iff the range is all zero. MODULAR step: find_prev/next_non_zero_value_fast are verified with the two byte-scanning loops replaced by their contract "
                   "(a contract stub instantiated at a symbolic witness bit), which makes them loop-free, so they are proved for every field width 1/2/4/8 bits, every region size, "
                   "every data address and EVERY search limit whose range lies inside a 64-byte (512-region) metadata window: the result is a region start inside the documented range "
                   "with a non-zero field and no non-zero region is met earlier in scan order; None iff every region of the range is zero. The region-by-region reference implementations "
                   "(_simple) satisfy the same specification for searches of up to 10 regions, and scan_non_zero_values_fast visits exactly the non-zero regions of [start,end) on a 16-byte "
                   "window. Hence fast == simple (the property) wherever both are covered. One corner is a recorded known finding (see known_findings.txt).",
    "bounds": ["byte-scanning loops: 24-byte / 16-byte buffers (unwind 26 / 11)", "fast searches: 64-byte metadata window (no unwinding bound: loop-free against the contracts)",
               "reference scans: <= 10 regions, VO-bit geometry (1 bit / 8 bytes) in the quick tier, all widths and region sizes in the thorough tier", "scan_non_zero_values_fast: 16-byte window, <= 2 set bits per word"],
    "assumptions": ["all metadata of the window is mapped (the mmapper stub answers 'mapped'); ranges at the edge of unmapped metadata are not covered",
                    "specs with log_bytes_in_region >= log_num_of_bits (the inverse translation subtracts the two)",
                    "the contract of the byte-scanning loops is discharged on windows of <= 24 bytes only (bounded), and used for longer ranges by the modular step"],
    "trusted_base": ["kani::stub of global_side_metadata_base_address and of create_mmapper (harness mmapper: everything mapped, 4 MiB granularity)",
                     "contract stubs contract_find_{last,first}_in_bytes in c22_search.rs (each backed by the bounded harness c22_find_in_bytes)"],
    "not_covered": ["search ranges crossing unmapped metadata", "discontiguous (32-bit local) specs", "scan_non_zero_values_simple on multi-bit specs",
                    "the public find_prev/next_non_zero_value wrappers with their debug cross-check are run only in the thorough tier on a 16-byte window"],
}
