#!/usr/bin/env python3
"""Mechanical extractor + contract splicer for Engine V (Verus on items of /repo), see DESIGN.md 3.2.

A unit (units/<name>.py, a Python module defining UNIT) lists the items to pull out of the repository, the
rewrite rules to apply to each (only rules from RULES below, each with a stated reason), and the contract text
(requires / ensures / loop invariants / decreases / lemma-call hints) to splice in. The generated file
build/<key>/verus/<unit>.rs is then checked with `verus <file> --output-json --time`.

Nothing in a unit may contain `assume(`, `admit(`, `external_body` or `assert(` inside an extracted item: hints
are lemma calls / `broadcast use` only, so a failed obligation can never be masked by a failed-then-assumed assert.
"""
import os, re, sys, json, time, subprocess, hashlib, importlib.util

HERE = os.path.dirname(os.path.abspath(__file__))

# ------------------------------------------------------------------------------------------------
# lexical scanner: find matching braces ignoring comments, strings, chars, lifetimes
# ------------------------------------------------------------------------------------------------

def _skip_noncode(s, i):
    """If s[i:] starts a comment/string/char literal, return index after it, else None."""
    if s.startswith("//", i):
        j = s.find("\n", i)
        return len(s) if j < 0 else j
    if s.startswith("/*", i):
        depth, j = 1, i + 2
        while j < len(s) and depth:
            if s.startswith("/*", j):
                depth += 1; j += 2
            elif s.startswith("*/", j):
                depth -= 1; j += 2
            else:
                j += 1
        return j
    if s[i] == '"':
        j = i + 1
        while j < len(s):
            if s[j] == "\\":
                j += 2
            elif s[j] == '"':
                return j + 1
            else:
                j += 1
        return j
    m = re.match(r'r(#*)"', s[i:])
    if m and (i == 0 or not (s[i - 1].isalnum() or s[i - 1] == "_")):
        end = '"' + m.group(1)
        j = s.find(end, i + len(m.group(0)))
        return len(s) if j < 0 else j + len(end)
    if s[i] == "'":
        m = re.match(r"'(\\.[^']*|[^'\\])'", s[i:])
        if m:
            return i + len(m.group(0))
        return i + 1  # lifetime
    return None


def match_close(s, open_idx, open_ch="{", close_ch="}"):
    assert s[open_idx] == open_ch, (s[open_idx:open_idx + 20], open_ch)
    depth, i = 0, open_idx
    while i < len(s):
        j = _skip_noncode(s, i)
        if j is not None:
            i = j
            continue
        c = s[i]
        if c == open_ch:
            depth += 1
        elif c == close_ch:
            depth -= 1
            if depth == 0:
                return i
        i += 1
    raise ValueError("unbalanced")


def find_code(s, pattern, start=0, end=None):
    """regex search that ignores matches inside comments/strings."""
    end = len(s) if end is None else end
    rx = re.compile(pattern, re.M)
    i = start
    while i < end:
        j = _skip_noncode(s, i)
        if j is not None:
            i = j
            continue
        m = rx.match(s, i)
        if m and m.end() <= end:
            return m
        i += 1
    return None


class LostAnchor(Exception):
    pass


def extract_block_item(src, header_rx):
    """Item of the form `<header> { ... }` (struct / impl / fn). Returns text incl. leading attributes."""
    m = find_code(src, header_rx)
    if not m:
        raise LostAnchor(header_rx)
    # the body opens at the first `{` at nesting level 0 of parens/brackets after the header
    i = m.end()
    depth = 0
    while i < len(src):
        j = _skip_noncode(src, i)
        if j is not None:
            i = j
            continue
        c = src[i]
        if c in "([":
            depth += 1
        elif c in ")]":
            depth -= 1
        elif c == "{" and depth == 0:
            break
        elif c == ";" and depth == 0:
            return src[m.start():i + 1], m.start(), None, None  # declaration without body
        i += 1
    close = match_close(src, i)
    return src[m.start():close + 1], m.start(), i, close


def extract_fn(src, name, impl_header_rx=None):
    """Returns (signature_text, body_text_without_braces)."""
    scope_lo, scope_hi = 0, len(src)
    if impl_header_rx:
        _, st, op, cl = extract_block_item(src, impl_header_rx)
        scope_lo, scope_hi = op + 1, cl
    sub = src[scope_lo:scope_hi]
    text, st, op, cl = extract_block_item(sub, r"(?:pub(?:\([a-z]+\))?\s+)?(?:const\s+)?(?:unsafe\s+)?fn\s+%s\b" % re.escape(name))
    if op is None:
        raise LostAnchor("fn %s has no body" % name)
    return sub[st:op].rstrip(), sub[op + 1:cl]


def extract_const(src, name):
    m = find_code(src, r"(?:pub(?:\([a-z]+\))?\s+)?const\s+%s\s*:[^;]*;" % re.escape(name), )
    if not m:
        raise LostAnchor("const " + name)
    return m.group(0)


# ------------------------------------------------------------------------------------------------
# rewrite rules (the only edits the extractor may make), each with its reason
# ------------------------------------------------------------------------------------------------

def _del_macro_stmt(names):
    def f(text):
        n = 0
        out, i = [], 0
        rx = re.compile(r"\b(%s)!\s*\(" % "|".join(names))
        while i < len(text):
            j = _skip_noncode(text, i)
            if j is not None:
                out.append(text[i:j]); i = j
                continue
            m = rx.match(text, i)
            if m:
                close = match_close(text, m.end() - 1, "(", ")")
                k = close + 1
                while k < len(text) and text[k] in " \t":
                    k += 1
                if k < len(text) and text[k] == ";":
                    k += 1
                i = k
                n += 1
                continue
            out.append(text[i]); i += 1
        return "".join(out), n
    return f


def _del_cfg_gated_stmt(keywords):
    """Delete `#[cfg(...)]` attributes whose condition mentions one of `keywords`, together with the statement, block or
    `if` they gate."""
    def f(text):
        n, out, i = 0, [], 0
        rx = re.compile(r"#\[cfg\(")
        while i < len(text):
            j = _skip_noncode(text, i)
            if j is not None:
                out.append(text[i:j]); i = j
                continue
            m = rx.match(text, i)
            if m:
                close = match_close(text, m.end() - 1, "(", ")")
                cond = text[m.end():close]
                k = close + 1
                while k < len(text) and text[k] in " \t":
                    k += 1
                if k < len(text) and text[k] == "]" and any(kw in cond for kw in keywords):
                    k += 1
                    while k < len(text) and text[k] in " \t\r\n":
                        k += 1
                    # the gated statement: a block, an `if ... { }` (no else), or an expression statement up to `;`
                    if text[k] == "{":
                        k = match_close(text, k) + 1
                    else:
                        is_if = re.match(r"if\b", text[k:]) is not None
                        depth = 0
                        while k < len(text):
                            q = _skip_noncode(text, k)
                            if q is not None:
                                k = q
                                continue
                            c = text[k]
                            if c in "([":
                                depth += 1
                            elif c in ")]":
                                depth -= 1
                            elif c == "{" and depth == 0:
                                k = match_close(text, k)
                                if is_if:
                                    k += 1
                                    break
                            elif c == ";" and depth == 0:
                                k += 1
                                break
                            k += 1
                    # eat the rest of the line
                    while k < len(text) and text[k] in " \t":
                        k += 1
                    if k < len(text) and text[k] == "\n":
                        k += 1
                    i = k
                    n += 1
                    continue
            out.append(text[i]); i += 1
        return "".join(out), n
    return f


def _split_top_commas(text):
    """split `text` at commas that are at nesting level 0 of () [] {} (ignoring strings/comments; `|..|` closure params have no commas here)"""
    parts, depth, i, last = [], 0, 0, 0
    while i < len(text):
        j = _skip_noncode(text, i)
        if j is not None:
            i = j
            continue
        c = text[i]
        if c in "([{":
            depth += 1
        elif c in ")]}":
            depth -= 1
        elif c == "," and depth == 0:
            parts.append(text[last:i]); last = i + 1
        i += 1
    parts.append(text[last:])
    return [p.strip() for p in parts if p.strip()]


def _scan_closure_to_loop(text):
    """`MARK_SPEC.scan_non_zero_values::<u8>(A, B, &mut |addr: Address| BODY)`  ==>  a loop over the sequence of set mark bits
    of [A, B) that runs BODY (verbatim) for each -- the contract of scan_non_zero_values (C22) inlined at the call site."""
    n, out, i = 0, [], 0
    rx = re.compile(r"MARK_SPEC\s*\.\s*scan_non_zero_values::<u8>\(")
    while i < len(text):
        j = _skip_noncode(text, i)
        if j is not None:
            out.append(text[i:j]); i = j
            continue
        m = rx.match(text, i)
        if m:
            close = match_close(text, m.end() - 1, "(", ")")
            args = _split_top_commas(text[m.end():close])
            cm = re.match(r"&mut\s*\|\s*addr\s*:\s*Address\s*\|\s*(.*)$", args[2], re.S) if len(args) == 3 else None
            if cm:
                body = cm.group(1).strip()
                if body.startswith("{"):
                    body = body[1:match_close(body, 0)].strip()
                if body and not body.endswith(";") and not body.endswith("}"):
                    body += ";"
                out.append("{\n            let scanned = self.marks.collect(%s, %s);\n            let ghost scan_from = state@;\n"
                           "            let mut scan_k: usize = 0;\n            while scan_k < scanned.len() {\n"
                           "                let addr = scanned[scan_k];\n                %s\n                scan_k = scan_k + 1;\n            }\n        }" % (args[0], args[1], body))
                k = close + 1
                i = k
                n += 1
                continue
        out.append(text[i]); i += 1
    return "".join(out), n


def _re_rule(pattern, repl, flags=re.M):
    def f(text):
        return re.subn(pattern, repl, text, flags=flags)
    return f


RULES = {
    "auto_const": (lambda t: (t, 0), "module-level constants mentioned by extracted bodies are copied verbatim (visibility widened to pub)"),
    "drop_comments": (_re_rule(r"^[ \t]*//[^\n]*\n", ""), "comments and doc comments carry no semantics"),
    "drop_trailing_comments": (_re_rule(r"[ \t]+//[^\n]*$", ""), "comments carry no semantics"),
    "drop_logging": (_del_macro_stmt(["trace", "debug", "info", "warn", "probe"]), "logging/probe statements have no effect on program state"),
    "drop_debug_assert": (_del_macro_stmt(["debug_assert", "debug_assert_eq", "debug_assert_ne"]),
                          "debug assertions are re-introduced as `requires` clauses (checked at call sites instead of at run time)"),
    "drop_attributes": (_re_rule(r"^[ \t]*#\[[^\]\n]*\]\s*\n", ""), "derive/doc/allow/inline attributes are irrelevant to verification"),
    "pub_fields": (_re_rule(r"^([ \t]+)(?!pub\b)([a-z_][a-z0-9_]*\s*:)", r"\1pub \2"), "Verus spec functions can only mention public fields"),
    "pub_tuple_field": (_re_rule(r"(struct\s+\w+\s*\()\s*(?!pub\b)", r"\1pub "), "Verus spec functions can only mention public fields"),
    "pub_item": (_re_rule(r"^(\s*)(?:pub\([a-z]+\)\s+)?(?!pub\b)(struct|fn|const fn|const|unsafe fn)\b", r"\1pub \2", flags=0), "Verus visibility rule for specs"),
    "op_assign_add": (_re_rule(r"([A-Za-z_][A-Za-z0-9_\.]*)\s*\+=\s*([^;]+);", r"\1 = \1 + \2;"), "compound assignment through an operator trait is not supported by Verus"),
    "op_assign_sub": (_re_rule(r"([A-Za-z_][A-Za-z0-9_\.]*)\s*-=\s*([^;]+);", r"\1 = \1 - \2;"), "compound assignment through an operator trait is not supported by Verus"),
    "drop_mutex_lock": (_re_rule(r"^[ \t]*let\s+(?:mut\s+)?sync\s*=\s*self\.sync\.(?:lock|get_mut)\(\)\.unwrap\(\);\s*\n", ""),
                        "the method is re-homed on the mutex-protected struct; mutex acquisition is NOT verified"),
    "sync_to_self": (_re_rule(r"\bsync\.", "self."), "the method is re-homed on the mutex-protected struct"),
    "self_to_mut_self": (_re_rule(r"\(\s*&self\b", "(&mut self"), "re-homed mutating method takes the protected struct by &mut"),
    "impl_iter_to_hashset": (_re_rule(r"->\s*impl\s+IntoIterator<Item\s*=\s*ObjectReference>", "-> HashSet<ObjectReference>"),
                             "the concrete type behind `impl IntoIterator` (what the body returns)"),
    "std_mem_take_path": (_re_rule(r"\bstd::mem::take\b", "core::mem::take"), "same function, path for which the assumed specification is declared"),
    "drop_const": (_re_rule(r"\bconst\s+fn\b", "fn"), "Verus exec functions need not be const"),
    "drop_unsafe_block": (_re_rule(r"\bunsafe\s*\{\s*(Address::from_usize\([^{}]*\))\s*\}", r"\1"), "from_usize is a plain constructor in the extracted Address"),
    # ---- LargeObjectSpace (unit `los`) ----
    "drop_cfg_nondefault": (_del_cfg_gated_stmt(['feature = "vo_bit"', "debug_assertions"]),
                            "statements compiled only with the non-default vo_bit feature or only in debug builds are outside the verified (default-feature, release-semantics) configuration"),
    "los_meta_calls": (_re_rule(r"VM::VMObjectModel::LOCAL_LOS_MARK_NURSERY_SPEC\s*\.\s*(load_atomic|store_atomic|compare_exchange_metadata)::<VM,\s*u8>\(", r"self.meta.\1("),
                       "the LOS mark/nursery metadata table (global side table or header bits, reached through the VM's spec constant) becomes the explicit field `meta`, "
                       "whose accessors carry the contract that C20/C23 discharge on the real accessors"),
    "los_log_calls": (_re_rule(r"VM::VMObjectModel::GLOBAL_LOG_BIT_SPEC\s*\.\s*(\w+)::<VM(?:,\s*u8)?>\(", r"self.log_bits.\1("),
                      "the global log-bit table becomes the explicit field `log_bits` (opaque: no contract, distinct from `meta`)"),
    "drop_mask_ordering_args": (_re_rule(r"\bNone\s*,\s*|\bOrdering::\w+\s*,?\s*", ""),
                                "the optional-mask argument (always None here) and memory orderings do not exist in the sequential contract of the accessors"),
    "los_struct_header": (_re_rule(r"struct\s+LargeObjectSpace<VM:\s*VMBinding>\s*\{", "struct LargeObjectSpace {\n    pub meta: LosMeta,\n    pub log_bits: LogBits,"),
                          "the VM type parameter only selects the metadata spec constants; the two metadata tables become explicit fields"),
    "los_struct_fields": (_re_rule(r"CommonSpace<VM>", "CommonSpaceFlags"), "only the boolean flags of CommonSpace are read by the extracted functions"),
    "los_struct_fields2": (_re_rule(r"FreeListPageResource<VM>", "PageResourceStub"), "the page resource is not touched by the extracted functions (opaque)"),
    # ---- Compressor glue (unit `compressor_glue`) ----
    "compressor_scan_closure": (_scan_closure_to_loop,
                                "a closure that mutates captured state is outside the Verus subset: `MARK_SPEC.scan_non_zero_values::<u8>(A, B, &mut |addr| BODY)` becomes a loop that runs BODY "
                                "(verbatim) for each element of `self.marks.collect(A, B)`, the ascending sequence of set mark bits of [A, B) -- the contract of the scan (C22) inlined at the call site"),
    "compressor_offset_calls": (_re_rule(r"OFFSET_VECTOR_SPEC\s*\.\s*(store_atomic|load_atomic)::<usize>\(", r"self.offsets.\1("),
                                "the offset-vector side table becomes the explicit field `offsets`, whose accessors carry the word-field contract C20 proves on the real accessors"),
    "desugar_for_region_iter": (_re_rule(r"for (\w+) in (RegionIterator::<Block>::new\([^()]*\)) \{", r"let mut iter = \2;\n        loop {\n            let \1 = match iter.next() { Some(x) => x, None => break };"),
                                "Rust's own desugaring of `for` over an Iterator (loop + match on next()), so that the loop can carry an invariant"),
    "fwdmeta_struct": (_re_rule(r"struct\s+ForwardingMetadata<VM:\s*VMBinding>\s*\{", "struct ForwardingMetadata {\n    pub marks: MarkTable,\n    pub offsets: OffsetTable,"),
                       "the VM type parameter is unused by the extracted functions; the two Compressor side tables (global in the real code) become explicit fields"),
    "fwdmeta_struct2": (_re_rule(r"AtomicBool", "CalcFlag"), "the `calculated` flag is only stored to by the extracted functions (opaque)"),
    "fwdmeta_struct3": (_re_rule(r"^\s*(?:pub\s+)?vm:\s*PhantomData<VM>,\s*\n", ""), "phantom marker of the dropped type parameter"),
    "los_struct_fields3": (_re_rule(r"\bTreadMill\b", "TreadMillSync"), "the treadmill's methods are re-homed on its mutex-protected struct (unit treadmill)"),
}


def apply_rules(text, rule_names, fired):
    for rn in rule_names:
        fn, _reason = RULES[rn]
        text, n = fn(text)
        fired[rn] = fired.get(rn, 0) + n
    return text


FORBIDDEN_IN_ITEMS = re.compile(r"\bassume\s*\(|\badmit\s*\(|external_body|\bassert\s*\(")


# ------------------------------------------------------------------------------------------------
# unit assembly
# ------------------------------------------------------------------------------------------------

def load_unit(name):
    path = os.path.join(HERE, "units", name + ".py")
    spec = importlib.util.spec_from_file_location("unit_" + name, path)
    mod = importlib.util.module_from_spec(spec)
    spec.loader.exec_module(mod)
    return mod.UNIT


def splice_loops(body, invariants):
    """Insert `invariant`/`decreases` text after the header of the k-th `while`/`loop`/`for` (by ordinal)."""
    if not invariants:
        return body
    out, i, k = [], 0, 0
    rx = re.compile(r"\b(while|for|loop)\b")
    while i < len(body):
        j = _skip_noncode(body, i)
        if j is not None:
            out.append(body[i:j]); i = j
            continue
        m = rx.match(body, i)
        if m and (i == 0 or not (body[i - 1].isalnum() or body[i - 1] == "_")):
            # find the `{` that opens the loop body (nesting level 0 of parens)
            p, depth = m.end(), 0
            while p < len(body):
                q = _skip_noncode(body, p)
                if q is not None:
                    p = q
                    continue
                if body[p] in "([":
                    depth += 1
                elif body[p] in ")]":
                    depth -= 1
                elif body[p] == "{" and depth == 0:
                    break
                p += 1
            out.append(body[i:p])
            if k in invariants:
                out.append("\n" + invariants[k] + "\n")
            k += 1
            i = p
            continue
        out.append(body[i]); i += 1
    if any(kk >= k for kk in invariants):
        raise LostAnchor("loop ordinal %s not found (only %d loops)" % (sorted(invariants), k))
    return "".join(out)


def build(unit, repo):
    fired, hashes, item_lines = {}, {}, []
    parts = ["// GENERATED by verus/extract.py from %s -- do not edit\n" % repo,
             "#![allow(unused_imports, dead_code, unused_variables, unused_mut, unused_parens)]\n",
             "use vstd::prelude::*;\n", unit.get("uses", ""), "\nverus! {\n", unit.get("prelude", ""), "\n"]

    def cur_line():
        return "".join(parts).count("\n") + 1

    srcs = {}

    def src_of(rel):
        if rel not in srcs:
            try:
                srcs[rel] = open(os.path.join(repo, rel)).read()
            except OSError:
                raise LostAnchor("file " + rel)
        return srcs[rel]

    groups = unit["groups"]  # list of {"header": "impl X {" or None, "items": [...]}
    for g in groups:
        if g.get("header"):
            parts.append(g["header"] + "\n")
        if g.get("spec_text"):
            parts.append(g["spec_text"] + "\n")
        for it in g["items"]:
            src = src_of(it.get("file", unit.get("source")))
            start_line = cur_line()
            if it["kind"] == "struct":
                text, _, _, _ = extract_block_item(src, r"(?:pub(?:\([a-z]+\))?\s+)?struct\s+%s\b" % re.escape(it["name"]))
                hashes[it["name"]] = hashlib.sha256(text.encode()).hexdigest()[:16]
                text = apply_rules(text, it.get("rules", []), fired)
                parts.append(it.get("attrs", "") + text + "\n")
            elif it["kind"] == "block":
                # a whole `impl ... { ... }` block (e.g. an operator impl), taken verbatim
                text, _, _, _ = extract_block_item(src, it["header"])
                hashes[it["name"]] = hashlib.sha256(text.encode()).hexdigest()[:16]
                text = apply_rules(text, it.get("rules", []), fired)
                parts.append(it.get("attrs", "") + text + "\n")
            elif it["kind"] == "const":
                text = extract_const(src, it["name"])
                hashes[it["name"]] = hashlib.sha256(text.encode()).hexdigest()[:16]
                text = apply_rules(text + "\n", it.get("rules", []), fired)
                parts.append(text)
            elif it["kind"] == "fn":
                sig, body = extract_fn(src, it["name"], it.get("impl"))
                hashes[(it.get("impl_name", "") + "::" if it.get("impl_name") else "") + it["name"]] = \
                    hashlib.sha256((sig + body).encode()).hexdigest()[:16]
                sig = apply_rules(sig + "\n", it.get("rules", []), fired).rstrip()
                body = apply_rules(body, it.get("rules", []), fired)
                if it.get("rename"):
                    sig = re.sub(r"\bfn\s+%s\b" % re.escape(it["name"]), "fn " + it["rename"], sig)
                if it.get("ret_name"):
                    sig, n = re.subn(r"->\s*(.+)$", lambda m: "-> (%s: %s)" % (it["ret_name"], m.group(1).strip()), sig, flags=re.S)
                    if n == 0:
                        raise LostAnchor("fn %s has no return type to name" % it["name"])
                body = splice_loops(body, it.get("loops", {}))
                for rx, htext in it.get("hints_after", []):
                    # proof hints (lemma calls / ghost lets only) inserted right after the first statement matching rx
                    if FORBIDDEN_IN_ITEMS.search(htext):
                        raise ValueError("forbidden construct in hint of %s" % it["name"])
                    hm = re.search(rx, body)
                    if not hm:
                        raise LostAnchor("hint anchor %r in fn %s" % (rx, it["name"]))
                    body = body[:hm.end()] + "\n" + htext + body[hm.end():]
                spec = ""
                if it.get("requires"):
                    spec += "\n    requires\n        " + ",\n        ".join(it["requires"]) + ","
                if it.get("ensures"):
                    spec += "\n    ensures\n        " + ",\n        ".join(it["ensures"]) + ","
                if it.get("decreases"):
                    spec += "\n    decreases " + it["decreases"] + ","
                hints_begin = it.get("hint_begin", "")
                hints_end = it.get("hint_end", "")
                for h in (hints_begin, hints_end, " ".join(it.get("loops", {}).values())):
                    if FORBIDDEN_IN_ITEMS.search(h) and "invariant" not in h:
                        raise ValueError("forbidden construct in hint of %s" % it["name"])
                if re.search(r"\bassume\s*\(|\badmit\s*\(|external_body", " ".join(it.get("requires", []) + it.get("ensures", []))):
                    raise ValueError("forbidden construct in contract of %s" % it["name"])
                if hints_end:
                    # the tail expression (return value) must stay last: insert the end hint before it only when the
                    # body ends with a statement; otherwise bind the tail to a fresh name
                    pass
                parts.append(it.get("attrs", "") + sig + spec + "\n{\n" + hints_begin + body.rstrip() + "\n" + hints_end + "}\n")
            else:
                raise ValueError(it["kind"])
            item_lines.append({"item": it.get("rename") or it["name"], "first": start_line, "last": cur_line() - 1,
                               "obligation_prefix": it.get("obligation", it.get("rename") or it["name"])})
        if g.get("header"):
            parts.append("}\n")
    # module-level constants of the source files that the extracted bodies mention but the unit does not define
    # (e.g. a constant introduced by a refactoring): pulled in verbatim so that the unit keeps compiling
    text_so_far = re.sub(r"//[^\n]*", "", "".join(parts) + unit.get("client", ""))
    auto = []
    for rel, src in list(srcs.items()):
        for cm in re.finditer(r"^(?:pub(?:\([a-z]+\))?\s+)?const\s+([A-Z][A-Z0-9_]*)\s*:[^;=]*=[^;]*;", src, re.M):
            name = cm.group(1)
            if re.search(r"\b%s\b" % name, text_so_far) and not re.search(r"\bconst\s+%s\b" % name, text_so_far):
                auto.append((name, re.sub(r"^(?:pub(?:\([a-z]+\))?\s+)?const", "pub const", cm.group(0))))
    if auto:
        start_line = cur_line()
        parts.append("// ---- module-level constants referenced by the extracted items (pulled in automatically) ----\n")
        for name, ctext in auto:
            hashes["const " + name] = hashlib.sha256(ctext.encode()).hexdigest()[:16]
            parts.append(ctext + "\n")
        fired["auto_const"] = len(auto)
        item_lines.append({"item": "(auto constants)", "first": start_line, "last": cur_line() - 1, "obligation_prefix": "const"})
    cl_start = cur_line()
    parts.append(unit.get("client", ""))
    item_lines.append({"item": "(client lemmas)", "first": cl_start, "last": cur_line(), "obligation_prefix": "client"})
    parts.append("\n} // verus!\nfn main() {}\n")
    return "".join(parts), fired, hashes, item_lines


def run_unit(name, repo, outdir, timeout_s=600):
    t0 = time.time()
    res = {"unit": name, "verdict": "undecided", "obligations": 0, "verified": 0, "failed_obligations": [], "backend": "verus 0.2026.09.13 / z3"}
    try:
        unit = load_unit(name)
        text, fired, hashes, item_lines = build(unit, repo)
    except LostAnchor as e:
        res["reason"] = "lost anchor: %s" % e
        return res
    except Exception as e:  # malformed unit
        res["reason"] = "extractor error: %r" % (e,)
        return res
    os.makedirs(outdir, exist_ok=True)
    path = os.path.join(outdir, name + ".rs")
    open(path, "w").write(text)
    res.update({"file": path, "file_sha256": hashlib.sha256(text.encode()).hexdigest(), "rule_firings": fired,
                "item_source_sha256": {str(k): v for k, v in hashes.items()},
                "rules_reasons": {k: RULES[k][1] for k in fired},
                "dropped_by_extraction": unit.get("dropped", []), "assumed": unit.get("assumed", []),
                "items": [i["item"] for i in item_lines]})
    cmd = ["verus", path, "--output-json", "--time", "--rlimit", str(unit.get("rlimit", 30))]
    res["cmd"] = " ".join(cmd)
    try:
        p = subprocess.run(cmd, stdout=subprocess.PIPE, stderr=subprocess.PIPE, text=True, timeout=timeout_s, cwd=outdir)
    except subprocess.TimeoutExpired:
        res["reason"] = "verus timed out after %ss" % timeout_s
        return res
    out, err = p.stdout, p.stderr
    res["output_tail"] = (err[-5000:] + "\n" + out[-1500:])
    try:
        js = json.loads(out[out.index("{"):])
    except Exception:
        js = {}
    vr = js.get("verification-results", {})
    res["verified"] = vr.get("verified", 0)
    nerr = vr.get("errors", 0)
    res["obligations"] = res["verified"] + nerr
    times = js.get("times-ms", {})
    res["solver_s"] = round((times.get("verification", {}) or {}).get("total", 0) / 1000.0, 2) if isinstance(times.get("verification"), dict) else None
    res["wall_s"] = round(time.time() - t0, 2)
    if res["solver_s"] is None:
        res["solver_s"] = res["wall_s"]
    if vr.get("encountered-vir-error") or (not vr and p.returncode != 0):
        res["reason"] = "verus could not process the generated file (unsupported construct / syntax): " + err[-1500:]
        return res
    if nerr == 0 and vr.get("success"):
        if res["verified"] == 0:
            res["reason"] = "zero obligations"
            return res
        # vacuity guard: the unit's canaries (functions with the same preconditions / axioms in scope and `ensures false`)
        # must each FAIL; a canary that verifies means contradictory assumptions, and the run is undecided
        canaries = unit.get("canaries", "")
        names = re.findall(r"\bfn\s+(canary_\w+)", canaries)
        if names:
            cpath = os.path.join(outdir, name + "_canary.rs")
            open(cpath, "w").write(text.replace("\n} // verus!\nfn main() {}\n", "\n// ---- vacuity canaries: every function below must fail ----\n" + canaries + "\n} // verus!\nfn main() {}\n"))
            try:
                cp = subprocess.run(["verus", cpath, "--output-json", "--rlimit", str(unit.get("rlimit", 30))], stdout=subprocess.PIPE, stderr=subprocess.PIPE, text=True, timeout=timeout_s, cwd=outdir)
                cjs = json.loads(cp.stdout[cp.stdout.index("{"):]).get("verification-results", {})
            except Exception as e:
                res["reason"] = "canary run failed: %r" % (e,)
                return res
            res["canaries"] = {"functions": names, "failed_as_required": cjs.get("errors", 0), "verified_with_canaries": cjs.get("verified", 0)}
            if cjs.get("encountered-vir-error") or cjs.get("errors", 0) != len(names) or cjs.get("verified", 0) != res["verified"]:
                res["reason"] = "vacuity: %d of %d canaries failed as required (a canary that verifies means contradictory assumptions)" % (cjs.get("errors", 0), len(names))
                return res
        res["verdict"] = "ok"
        return res
    # classify errors
    failed, undec = [], []
    for m in re.finditer(r"^error: ([^\n]*)\n\s*-->\s*[^:\n]*:(\d+):\d+", err, re.M):
        msg, line = m.group(1), int(m.group(2))
        item = next((i for i in item_lines if i["first"] <= line <= i["last"]), None)
        label = "%s.%s" % (unit.get("property", "V"), (item or {}).get("obligation_prefix", "line%d" % line))
        if re.search(r"rlimit|resource limit|timed out|timeout", msg, re.I):
            undec.append("%s: %s" % (label, msg))
        elif item is not None and item["item"] == "(client lemmas)":
            # the client depends on the contracts' text only; an error there is proof instability, not a code change
            undec.append("%s: %s (in client lemma)" % (label, msg))
        elif re.search(r"postcondition not satisfied|invariant not satisfied|precondition not satisfied|possible arithmetic|"
                       r"possible division|decreases not satisfied|assertion failed|index out of bounds|unwrap", msg, re.I):
            kind = ("post" if "postcondition" in msg else "inv" if "invariant" in msg else "pre" if "precondition" in msg
                    else "arith" if "arithmetic" in msg or "division" in msg else "decreases" if "decreases" in msg else "assert")
            failed.append("%s.%s" % (label, kind))
        else:
            undec.append("%s: %s" % (label, msg))
    if failed:
        res["verdict"] = "violation"
        res["failed_obligations"] = sorted(set(failed))
    else:
        res["reason"] = "verification errors that are not property obligations: " + "; ".join(undec or [err[-800:]])
    return res


if __name__ == "__main__":
    r = run_unit(sys.argv[1], sys.argv[2] if len(sys.argv) > 2 else "/repo", sys.argv[3] if len(sys.argv) > 3 else "/verif/build/main/verus")
    print(json.dumps({k: v for k, v in r.items() if k != "output_tail"}, indent=1))
    if r["verdict"] != "ok":
        print(r.get("output_tail", ""))
