"""Unit `los` (C36, LargeObjectSpace layer): the functions of src/policy/largeobjectspace.rs that drive the treadmill
(initialize_object_metadata, prepare, trace_object, test_and_mark, is_in_nursery, test_mark_bit, is_marked, release),
extracted and verified on top of the contracts of unit `treadmill` (whose extracted items are included, so both layers
are checked in one file). The mark/nursery bits are tied to the treadmill sets by a representation invariant; a whole
GC cycle through the real prepare / trace_object / release is then a client lemma."""
import os, importlib.util

_spec = importlib.util.spec_from_file_location("unit_treadmill_for_los", os.path.join(os.path.dirname(os.path.abspath(__file__)), "treadmill.py"))
_tm = importlib.util.module_from_spec(_spec)
_spec.loader.exec_module(_tm)
TM = _tm.UNIT

LOS_FILE = "src/policy/largeobjectspace.rs"
INHERENT = r"impl<VM:\s*VMBinding>\s+LargeObjectSpace<VM>"
SFT = r"impl<VM:\s*VMBinding>\s+SFT\s+for\s+LargeObjectSpace<VM>"
BODY = ["drop_comments", "drop_cfg_nondefault", "drop_logging", "drop_debug_assert", "los_meta_calls", "los_log_calls", "drop_mask_ordering_args", "pub_item"]

E = "Set::<ObjectReference>::empty()"
TMF = ["from_space", "to_space", "collect_nursery", "alloc_nursery"]


def tm_same(*fields):
    return ["final(self).treadmill.%s@ == old(self).treadmill.%s@" % (f, f) for f in fields]


FRAME_FLAGS = ["final(self).common == old(self).common", "final(self).clear_log_bit_on_sweep == old(self).clear_log_bit_on_sweep"]

PRELUDE = r'''
// ---- assumed environment of the LargeObjectSpace functions (listed in the evidence) -------------------------------
/// The LOCAL_LOS_MARK_NURSERY_SPEC table as a total map object -> 2-bit field. The three accessors carry the
/// sequential contract "independent fixed-width field" that C20 (side) / C23 (header) discharge on the real accessors.
#[verifier::external_body]
pub struct LosMeta { _p: usize }
impl LosMeta {
    pub uninterp spec fn bits(&self, o: ObjectReference) -> u8;

    /// a 2-bit field holds a value below 4
    pub broadcast axiom fn axiom_width(&self, o: ObjectReference)
        ensures #[trigger] self.bits(o) <= 3;

    #[verifier::external_body]
    pub fn load_atomic(&self, o: ObjectReference) -> (r: u8)
        ensures r == self.bits(o), r <= 3,
    { unimplemented!() }

    #[verifier::external_body]
    pub fn store_atomic(&mut self, o: ObjectReference, v: u8)
        requires v <= 3,   // the accessors' own assert_value_type: the value must fit the 2-bit field
        ensures final(self).bits(o) == v,
                forall|p: ObjectReference| p != o ==> final(self).bits(p) == old(self).bits(p),
    { unimplemented!() }

    #[verifier::external_body]
    pub fn compare_exchange_metadata(&mut self, o: ObjectReference, old_v: u8, new_v: u8) -> (r: Result<u8, u8>)
        requires old_v <= 3, new_v <= 3,
        ensures
            old(self).bits(o) == old_v ==> r == Ok::<u8, u8>(old_v) && final(self).bits(o) == new_v,
            old(self).bits(o) != old_v ==> r == Err::<u8, u8>(old(self).bits(o)) && final(self).bits(o) == old(self).bits(o),
            forall|p: ObjectReference| p != o ==> final(self).bits(p) == old(self).bits(p),
    { unimplemented!() }
}

/// The global log-bit table: opaque, a different table from `meta` (disjointness of tables: C24).
#[verifier::external_body]
pub struct LogBits { _p: usize }
impl LogBits {
    #[verifier::external_body]
    pub fn mark_as_unlogged(&mut self, o: ObjectReference) { unimplemented!() }
    #[verifier::external_body]
    pub fn clear(&mut self, o: ObjectReference) { unimplemented!() }
}

/// The flags of CommonSpace that the extracted functions read.
pub struct CommonSpaceFlags {
    pub unlog_allocated_object: bool,
    pub unlog_traced_object: bool,
    pub needs_log_bit: bool,
    pub allocate_as_live: bool,
}
#[verifier::external_body]
pub struct PageResourceStub { _p: usize }

/// plan::tracing::ObjectQueue with the obvious contract (enqueue appends).
pub trait ObjectQueue {
    spec fn view(&self) -> Seq<ObjectReference>;
    fn enqueue(&mut self, object: ObjectReference)
        ensures final(self).view() == old(self).view().push(object);
}

/// Bit-level facts about 2-bit mark/nursery values (bit-vector back end).
pub proof fn lemma_los_bits(v: u8, value: u8)
    requires v <= 3, value <= 3,
    ensures
        (v & !LOS_BIT_MASK | value) == value,
        v & LOS_BIT_MASK == v,
        (v & NURSERY_BIT == NURSERY_BIT) <==> v >= 2,
        v & MARK_BIT == v % 2,
        value <= 1 ==> (value | NURSERY_BIT) == value + 2,
{
    assert((v & !3u8 | value) == value && v & 3u8 == v && ((v & 2u8 == 2u8) <==> v >= 2) && v & 1u8 == v % 2
           && (value <= 1 ==> (value | 2u8) == value + 2)) by(bit_vector)
        requires v <= 3, value <= 3;
}
'''

LOS_SPEC = r'''
    /// Representation invariant of the space: the nursery bit of an object says which kind of treadmill set holds it.
    pub open spec fn base_inv(&self) -> bool {
        &&& self.mark_state <= 1
        &&& self.treadmill.wf()
        &&& forall|o: ObjectReference| #[trigger] self.treadmill.alloc_nursery@.contains(o) ==> self.meta.bits(o) >= 2
        &&& forall|o: ObjectReference| #[trigger] self.treadmill.collect_nursery@.contains(o) ==> self.meta.bits(o) >= 2
        &&& forall|o: ObjectReference| #[trigger] self.treadmill.to_space@.contains(o) ==> self.meta.bits(o) < 2
        &&& forall|o: ObjectReference| #[trigger] self.treadmill.from_space@.contains(o) ==> self.meta.bits(o) < 2
    }
    /// Between collections: nothing is being collected, every object carries the current mark state.
    pub open spec fn mutator_inv(&self) -> bool {
        &&& self.base_inv()
        &&& self.treadmill.collect_nursery@ == Set::<ObjectReference>::empty()
        &&& self.treadmill.from_space@ == Set::<ObjectReference>::empty()
        &&& forall|o: ObjectReference| #[trigger] self.treadmill.to_space@.contains(o) ==> self.meta.bits(o) == self.mark_state
        &&& forall|o: ObjectReference| #[trigger] self.treadmill.alloc_nursery@.contains(o) ==> self.meta.bits(o) == self.mark_state + 2
    }
    /// During a collection (between prepare and release): to_space = marked in this GC (or mature in a nursery GC),
    /// from_space / collect_nursery = not yet marked.
    pub open spec fn gc_inv(&self) -> bool {
        &&& self.base_inv()
        &&& self.treadmill.alloc_nursery@ == Set::<ObjectReference>::empty()
        &&& self.in_nursery_gc ==> self.treadmill.from_space@ == Set::<ObjectReference>::empty()
        &&& forall|o: ObjectReference| #[trigger] self.treadmill.to_space@.contains(o) ==> self.meta.bits(o) == self.mark_state
        &&& forall|o: ObjectReference| #[trigger] self.treadmill.from_space@.contains(o) ==> self.meta.bits(o) == 1 - self.mark_state
        &&& forall|o: ObjectReference| #[trigger] self.treadmill.collect_nursery@.contains(o) ==>
                (self.in_nursery_gc || self.meta.bits(o) == (1 - self.mark_state) + 2)
    }

    // ---- assumed: not extracted -------------------------------------------------------------------------------
    /// Space::should_allocate_as_live (an atomic load of CommonSpace::allocate_as_live).
    #[verifier::external_body]
    pub fn should_allocate_as_live(&self) -> (r: bool)
        ensures r == self.common.allocate_as_live,
    { unimplemented!() }

    /// LargeObjectSpace::sweep_large_pages: `for object in self.treadmill.collect_nursery() / collect_mature() { sweep(object) }`
    /// (iteration over a HashSet by value and the page release are outside the Verus subset). Assumed to have exactly
    /// the treadmill effect of the collect_* call it makes (whose body IS verified in this file) and to leave the
    /// mark/nursery table alone.
    #[verifier::external_body]
    pub fn sweep_large_pages(&mut self, sweep_nursery: bool)
        requires old(self).treadmill.wf(),
        ensures
            final(self).treadmill.wf(),
            sweep_nursery ==> final(self).treadmill.collect_nursery@ == Set::<ObjectReference>::empty()
                && final(self).treadmill.from_space@ == old(self).treadmill.from_space@,
            !sweep_nursery ==> final(self).treadmill.from_space@ == Set::<ObjectReference>::empty()
                && final(self).treadmill.collect_nursery@ == old(self).treadmill.collect_nursery@,
            final(self).treadmill.to_space@ == old(self).treadmill.to_space@,
            final(self).treadmill.alloc_nursery@ == old(self).treadmill.alloc_nursery@,
            final(self).meta == old(self).meta, final(self).mark_state == old(self).mark_state,
            final(self).in_nursery_gc == old(self).in_nursery_gc, final(self).common == old(self).common,
            final(self).clear_log_bit_on_sweep == old(self).clear_log_bit_on_sweep,
    { unimplemented!() }
'''

NEWLY = "(old(self).treadmill.collect_nursery@.contains(object) || old(self).treadmill.from_space@.contains(object))"

LOS_ITEMS = [
    {"kind": "fn", "file": LOS_FILE, "impl": INHERENT, "name": "is_in_nursery", "rules": BODY, "ret_name": "r", "obligation": "los.is_in_nursery",
     "ensures": ["r == (self.meta.bits(object) >= 2)"],
     "hint_begin": "    broadcast use LosMeta::axiom_width;\n    proof { lemma_los_bits(self.meta.bits(object), 0); }\n"},
    {"kind": "fn", "file": LOS_FILE, "impl": INHERENT, "name": "test_mark_bit", "rules": BODY, "ret_name": "r", "obligation": "los.test_mark_bit",
     "ensures": ["r == (self.meta.bits(object) % 2 == value)"],
     "hint_begin": "    broadcast use LosMeta::axiom_width;\n    proof { lemma_los_bits(self.meta.bits(object), 0); }\n"},
    {"kind": "fn", "file": LOS_FILE, "impl": INHERENT, "name": "is_marked", "rules": BODY, "ret_name": "r", "obligation": "los.is_marked",
     "ensures": ["r == (self.meta.bits(object) % 2 == self.mark_state)"]},
    {"kind": "fn", "file": LOS_FILE, "impl": INHERENT, "name": "test_and_mark", "rules": BODY + ["self_to_mut_self"], "ret_name": "r",
     "obligation": "los.test_and_mark", "attrs": "#[verifier::exec_allows_no_decreases_clause]\n",
     "requires": ["value <= 1"],
     "ensures": [
         # returns true iff the masked old value differed; then the field is exactly `value` (mark set, nursery bit cleared)
         "r == ((if old(self).in_nursery_gc { old(self).meta.bits(object) } else { old(self).meta.bits(object) % 2 }) != value)",
         "r ==> final(self).meta.bits(object) == value",
         "!r ==> final(self).meta == old(self).meta",
         "forall|p: ObjectReference| p != object ==> final(self).meta.bits(p) == old(self).meta.bits(p)",
         "final(self).treadmill == old(self).treadmill", "final(self).mark_state == old(self).mark_state",
         "final(self).in_nursery_gc == old(self).in_nursery_gc"] + FRAME_FLAGS,
     "hint_begin": "    broadcast use LosMeta::axiom_width;\n    proof { lemma_los_bits(old(self).meta.bits(object), value); }\n",
     "loops": {0: "            invariant_except_break\n                self.meta == old(self).meta,\n"
                  "            invariant\n                value <= 1,\n"
                  "                self.treadmill == old(self).treadmill, self.mark_state == old(self).mark_state,\n"
                  "                self.in_nursery_gc == old(self).in_nursery_gc, self.common == old(self).common,\n"
                  "                self.clear_log_bit_on_sweep == old(self).clear_log_bit_on_sweep,\n"
                  "                (old(self).meta.bits(object) & !LOS_BIT_MASK | value) == value,\n"
                  "                old(self).meta.bits(object) & LOS_BIT_MASK == old(self).meta.bits(object),\n"
                  "                old(self).meta.bits(object) & MARK_BIT == old(self).meta.bits(object) % 2,\n"
                  "            ensures\n"
                  "                self.meta.bits(object) == value,\n"
                  "                (if old(self).in_nursery_gc { old(self).meta.bits(object) } else { old(self).meta.bits(object) % 2 }) != value,\n"
                  "                forall|p: ObjectReference| p != object ==> self.meta.bits(p) == old(self).meta.bits(p),"}},
    {"kind": "fn", "file": LOS_FILE, "impl": SFT, "name": "initialize_object_metadata", "rules": BODY + ["self_to_mut_self"],
     "obligation": "los.initialize_object_metadata",
     "requires": ["old(self).base_inv()", "!old(self).treadmill.all().contains(object)"],
     "ensures": ["final(self).base_inv()",
                 # objects allocated as live go to to_space with the current mark state; all others into the allocation nursery
                 "old(self).common.allocate_as_live ==> final(self).treadmill.to_space@ =~= old(self).treadmill.to_space@.insert(object)"
                 " && final(self).treadmill.alloc_nursery@ == old(self).treadmill.alloc_nursery@ && final(self).meta.bits(object) == old(self).mark_state",
                 "!old(self).common.allocate_as_live ==> final(self).treadmill.alloc_nursery@ =~= old(self).treadmill.alloc_nursery@.insert(object)"
                 " && final(self).treadmill.to_space@ == old(self).treadmill.to_space@ && final(self).meta.bits(object) == old(self).mark_state + 2",
                 "forall|p: ObjectReference| p != object ==> final(self).meta.bits(p) == old(self).meta.bits(p)",
                 "final(self).mark_state == old(self).mark_state", "final(self).in_nursery_gc == old(self).in_nursery_gc"]
                + tm_same("from_space", "collect_nursery") + FRAME_FLAGS +
                ["old(self).mutator_inv() ==> final(self).mutator_inv()",
                 "old(self).gc_inv() && old(self).common.allocate_as_live ==> final(self).gc_inv()"],
     "hint_begin": "    proof { lemma_los_bits(0, self.mark_state); }\n"},
    {"kind": "fn", "file": LOS_FILE, "impl": INHERENT, "name": "prepare", "rules": BODY, "obligation": "los.prepare",
     "requires": ["old(self).mutator_inv()"],
     "ensures": ["final(self).gc_inv()", "final(self).in_nursery_gc == !full_heap",
                 "final(self).mark_state == (if full_heap { (1 - old(self).mark_state) as u8 } else { old(self).mark_state })",
                 "final(self).treadmill.collect_nursery@ == old(self).treadmill.alloc_nursery@",
                 "full_heap ==> final(self).treadmill.from_space@ == old(self).treadmill.to_space@ && final(self).treadmill.to_space@ == " + E,
                 "!full_heap ==> final(self).treadmill.from_space@ == " + E + " && final(self).treadmill.to_space@ == old(self).treadmill.to_space@",
                 "final(self).meta == old(self).meta"] + FRAME_FLAGS},
    {"kind": "fn", "file": LOS_FILE, "impl": INHERENT, "name": "trace_object", "rules": BODY + ["self_to_mut_self"], "ret_name": "r",
     "obligation": "los.trace_object",
     "requires": ["old(self).gc_inv()", "old(self).treadmill.all().contains(object)"],
     "ensures": ["r == object", "final(self).gc_inv()",
                 # an object of a collected set is marked now: moved to to_space (out of the set it was in), enqueued once
                 "old(self).treadmill.collect_nursery@.contains(object) ==> final(self).treadmill.collect_nursery@ =~= old(self).treadmill.collect_nursery@.remove(object)"
                 " && final(self).treadmill.from_space@ == old(self).treadmill.from_space@",
                 "old(self).treadmill.from_space@.contains(object) ==> final(self).treadmill.from_space@ =~= old(self).treadmill.from_space@.remove(object)"
                 " && final(self).treadmill.collect_nursery@ == old(self).treadmill.collect_nursery@",
                 NEWLY + " ==> final(self).treadmill.to_space@ =~= old(self).treadmill.to_space@.insert(object) && final(queue).view() == old(queue).view().push(object)",
                 # an object already in to_space (marked earlier in this GC, or mature in a nursery GC) is left alone
                 "!" + NEWLY + " ==> final(self).treadmill == old(self).treadmill && final(self).meta == old(self).meta && final(queue).view() == old(queue).view()",
                 "final(self).treadmill.alloc_nursery@ == old(self).treadmill.alloc_nursery@",
                 "final(self).mark_state == old(self).mark_state", "final(self).in_nursery_gc == old(self).in_nursery_gc"] + FRAME_FLAGS,
     "hint_begin": "    broadcast use axiom_objref_key_model;\n"},
    {"kind": "fn", "file": LOS_FILE, "impl": INHERENT, "name": "release", "rules": BODY, "obligation": "los.release",
     # the leading debug_assert (allocation nursery empty) is part of gc_inv; full_heap must match the prepare of this GC
     "requires": ["old(self).gc_inv()", "full_heap == !old(self).in_nursery_gc"],
     "ensures": ["final(self).mutator_inv()",
                 # exactly the collected sets are emptied (swept); to_space, i.e. every marked object, is kept
                 "final(self).treadmill.to_space@ == old(self).treadmill.to_space@",
                 "final(self).treadmill.alloc_nursery@ == " + E, "final(self).treadmill.collect_nursery@ == " + E, "final(self).treadmill.from_space@ == " + E,
                 "final(self).meta == old(self).meta", "final(self).mark_state == old(self).mark_state"] + FRAME_FLAGS},
]

CLIENT = r'''
/// One whole LOS collection through the real prepare / trace_object / release: `reached` is the sequence of LOS objects
/// the transitive closure presents to trace_object, in any order and with any repetitions.
pub fn los_gc_cycle<Q: ObjectQueue>(los: &mut LargeObjectSpace, full_heap: bool, reached: &Vec<ObjectReference>, queue: &mut Q)
    requires
        old(los).mutator_inv(),
        forall|i: int| 0 <= i < reached.len() ==> old(los).treadmill.all().contains(#[trigger] reached@[i]),
    ensures
        final(los).mutator_inv(),
        // kept: every reached object, plus (nursery GC) the mature objects; nothing else
        full_heap ==> final(los).treadmill.to_space@ =~= reached@.to_set(),
        !full_heap ==> final(los).treadmill.to_space@ =~= old(los).treadmill.to_space@ + reached@.to_set().intersect(old(los).treadmill.alloc_nursery@),
        // swept (gone from every set): exactly the objects of the collected sets that were not reached
        final(los).treadmill.alloc_nursery@ == Set::<ObjectReference>::empty(),
        final(los).treadmill.collect_nursery@ == Set::<ObjectReference>::empty(),
        final(los).treadmill.from_space@ == Set::<ObjectReference>::empty(),
{
    broadcast use axiom_objref_key_model;
    los.prepare(full_heap);
    let ghost g0 = *los;
    let mut i: usize = 0;
    while i < reached.len()
        invariant
            i <= reached.len(), los.gc_inv(), los.in_nursery_gc == !full_heap,
            los.treadmill.all() =~= g0.treadmill.all(),
            forall|k: int| 0 <= k < reached.len() ==> g0.treadmill.all().contains(#[trigger] reached@[k]),
            los.treadmill.collect_nursery@ =~= g0.treadmill.collect_nursery@.difference(reached@.subrange(0, i as int).to_set()),
            los.treadmill.from_space@ =~= g0.treadmill.from_space@.difference(reached@.subrange(0, i as int).to_set()),
            los.treadmill.to_space@ =~= g0.treadmill.to_space@
                + reached@.subrange(0, i as int).to_set().intersect(g0.treadmill.collect_nursery@ + g0.treadmill.from_space@),
        decreases reached.len() - i,
    {
        let o = reached[i];
        proof {
            assert(reached@.subrange(0, i as int + 1) =~= reached@.subrange(0, i as int).push(o));
            assert forall|x: ObjectReference| reached@.subrange(0, i as int).push(o).to_set().contains(x)
                <==> reached@.subrange(0, i as int).to_set().insert(o).contains(x) by {
                vstd::seq_lib::lemma_seq_contains_after_push(reached@.subrange(0, i as int), o, x);
            }
            assert(reached@.subrange(0, i as int).push(o).to_set() =~= reached@.subrange(0, i as int).to_set().insert(o));
            assert(g0.treadmill.all().contains(reached@[i as int]));
        }
        let _ = los.trace_object(queue, o);
        i += 1;
    }
    assert(reached@.subrange(0, reached.len() as int) =~= reached@);
    los.release(full_heap);
}
'''

CLIENT += r'''
/// C18 for the large-object space: of two consecutive attempts to mark the same object with the same mark state, at most
/// the first succeeds, the second changes nothing, and after a success the field is exactly the mark state.
pub fn los_mark_exactly_once(los: &mut LargeObjectSpace, o: ObjectReference, value: u8) -> (r: (bool, bool))
    requires value <= 1,
    ensures
        !r.1,
        r.0 ==> final(los).meta.bits(o) == value,
        !r.0 ==> final(los).meta == old(los).meta,
        forall|p: ObjectReference| p != o ==> final(los).meta.bits(p) == old(los).meta.bits(p),
        final(los).treadmill == old(los).treadmill,
{
    broadcast use LosMeta::axiom_width;
    proof { lemma_los_bits(los.meta.bits(o), value); lemma_los_bits(value, value); }
    let a = los.test_and_mark(o, value);
    let b = los.test_and_mark(o, value);
    (a, b)
}
'''

CANARIES = r'''
proof fn canary_axioms(m: LosMeta, o: ObjectReference, s: HashSet<ObjectReference>)
    ensures false
{
    broadcast use LosMeta::axiom_width, axiom_objref_key_model, axiom_hashset_default_empty;
    lemma_los_bits(m.bits(o), 1);
}
fn canary_initialize(los: &mut LargeObjectSpace, o: ObjectReference)
    requires old(los).mutator_inv(), !old(los).treadmill.all().contains(o),
    ensures false
{
    los.initialize_object_metadata(o, 0);
}
fn canary_gc_cycle<Q: ObjectQueue>(los: &mut LargeObjectSpace, full_heap: bool, o: ObjectReference, queue: &mut Q)
    requires old(los).mutator_inv(), old(los).treadmill.all().contains(o),
    ensures false
{
    broadcast use axiom_objref_key_model;
    los.prepare(full_heap);
    let _ = los.trace_object(queue, o);
    let _ = los.trace_object(queue, o);
    let _ = los.test_and_mark(o, 0);
    los.release(full_heap);
}
'''

UNIT = {
    "property": "C36",
    "source": TM["source"],
    "uses": TM["uses"],
    "rlimit": 60,
    "prelude": TM["prelude"] + PRELUDE,
    "groups": TM["groups"] + [
        {"header": None, "items": [
            {"kind": "const", "file": LOS_FILE, "name": "MARK_BIT", "rules": ["pub_item"]},
            {"kind": "const", "file": LOS_FILE, "name": "NURSERY_BIT", "rules": ["pub_item"]},
            {"kind": "const", "file": LOS_FILE, "name": "LOS_BIT_MASK", "rules": ["pub_item"]},
            {"kind": "struct", "file": LOS_FILE, "name": "LargeObjectSpace",
             "rules": ["drop_comments", "los_struct_header", "los_struct_fields", "los_struct_fields2", "los_struct_fields3", "pub_fields", "pub_item"]},
        ]},
        {"header": "impl LargeObjectSpace {", "spec_text": LOS_SPEC, "items": LOS_ITEMS},
    ],
    "client": CLIENT,
    "canaries": CANARIES,
    "dropped": TM["dropped"] + [
        "LargeObjectSpace: the VM type parameter; vo_bit-feature statements and debug-only assertion blocks; trace!; memory orderings and the (None) mask argument of the metadata accessors",
        "LargeObjectSpace::new, SFT/Space plumbing, enumerate_objects, allocate_pages, clear/set_side_log_bits, find_object_from_internal_pointer",
        "termination of test_and_mark's compare-exchange retry loop (exec_allows_no_decreases_clause): under interference it is not guaranteed by the code either"],
    "assumed": TM["assumed"] + [
        "LosMeta (external_body): LOCAL_LOS_MARK_NURSERY_SPEC.load_atomic / store_atomic / compare_exchange_metadata behave as an array of independent 2-bit fields "
        "(sequential contract; this is what C20/C23 prove on the real accessors)",
        "LogBits (external_body): the log-bit table is a different table (C24) whose operations do not touch `meta`",
        "LargeObjectSpace::sweep_large_pages (external_body, NOT verified): has the treadmill effect of the collect_nursery()/collect_mature() call it makes and leaves the mark/nursery bits alone",
        "Space::should_allocate_as_live returns CommonSpace::allocate_as_live",
        "ObjectQueue::enqueue appends to the queue",
        "&self methods that mutate through atomics / the treadmill mutex are rendered as &mut self (sequential semantics; atomicity is C18's assumption)",
    ],
}
