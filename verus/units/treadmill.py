"""Unit `treadmill` (C36): TreadMillSync and the bodies of every TreadMill operation, extracted from
src/util/treadmill.rs and re-homed on the mutex-protected struct."""

COMMON = ["drop_comments", "drop_logging", "drop_debug_assert", "drop_mutex_lock", "sync_to_self", "pub_item"]
S = "Set::<ObjectReference>::empty()"


def same(*fields):
    return ["final(self).%s@ == old(self).%s@" % (f, f) for f in fields]


UNIT = {
    "property": "C36",
    "source": "src/util/treadmill.rs",
    "uses": "use std::collections::HashSet;\nuse std::mem::swap;\n",
    "prelude": r'''
// ---- assumed environment (listed in the evidence) ------------------------------------------------
// ObjectReference is used by treadmill.rs only as a hashable, copyable key.
#[derive(PartialEq, Eq, Hash, Clone, Copy)]
pub struct ObjectReference(pub usize);

pub broadcast axiom fn axiom_objref_key_model()
    ensures #[trigger] vstd::std_specs::hash::obeys_key_model::<ObjectReference>();

pub uninterp spec fn spec_default<T>() -> T;

pub assume_specification<T: Default>[core::mem::take::<T>](dest: &mut T) -> (r: T)
    ensures r == *old(dest), *final(dest) == spec_default::<T>();

pub broadcast axiom fn axiom_hashset_default_empty()
    ensures #[trigger] spec_default::<HashSet<ObjectReference>>()@ == Set::<ObjectReference>::empty();
''',
    "groups": [
        {"header": None, "items": [
            {"kind": "struct", "name": "TreadMillSync", "rules": ["drop_comments", "pub_fields", "pub_item"]},
        ]},
        {"header": "impl TreadMillSync {",
         "spec_text": r'''
    /// Representation invariant: the four sets are pairwise disjoint (each object is in at most one of them).
    pub open spec fn wf(&self) -> bool {
        &&& self.from_space@.disjoint(self.to_space@)
        &&& self.from_space@.disjoint(self.collect_nursery@)
        &&& self.from_space@.disjoint(self.alloc_nursery@)
        &&& self.to_space@.disjoint(self.collect_nursery@)
        &&& self.to_space@.disjoint(self.alloc_nursery@)
        &&& self.collect_nursery@.disjoint(self.alloc_nursery@)
    }
    /// Every object the treadmill knows about.
    pub open spec fn all(&self) -> Set<ObjectReference> {
        self.from_space@ + self.to_space@ + self.collect_nursery@ + self.alloc_nursery@
    }
''',
         "items": [
             {"kind": "fn", "impl": r"impl\s+TreadMill\b", "name": "add_to_treadmill", "rules": COMMON + ["self_to_mut_self"],
              "requires": ["old(self).wf()", "!old(self).all().contains(object)"],
              "ensures": ["final(self).wf()",
                          "nursery ==> final(self).alloc_nursery@ =~= old(self).alloc_nursery@.insert(object) && final(self).to_space@ == old(self).to_space@",
                          "!nursery ==> final(self).to_space@ =~= old(self).to_space@.insert(object) && final(self).alloc_nursery@ == old(self).alloc_nursery@",
                          ] + same("from_space", "collect_nursery"),
              "hint_begin": "    broadcast use axiom_objref_key_model;\n"},
             {"kind": "fn", "impl": r"impl\s+TreadMill\b", "name": "collect_nursery",
              "rules": COMMON + ["self_to_mut_self", "impl_iter_to_hashset", "std_mem_take_path"], "ret_name": "r",
              "requires": ["old(self).wf()"],
              "ensures": ["final(self).wf()", "r@ == old(self).collect_nursery@", "final(self).collect_nursery@ == " + S]
                         + same("from_space", "to_space", "alloc_nursery"),
              "hint_begin": "    broadcast use axiom_objref_key_model, axiom_hashset_default_empty;\n"},
             {"kind": "fn", "impl": r"impl\s+TreadMill\b", "name": "collect_mature",
              "rules": COMMON + ["self_to_mut_self", "impl_iter_to_hashset", "std_mem_take_path"], "ret_name": "r",
              "requires": ["old(self).wf()"],
              "ensures": ["final(self).wf()", "r@ == old(self).from_space@", "final(self).from_space@ == " + S]
                         + same("collect_nursery", "to_space", "alloc_nursery"),
              "hint_begin": "    broadcast use axiom_objref_key_model, axiom_hashset_default_empty;\n"},
             {"kind": "fn", "impl": r"impl\s+TreadMill\b", "name": "copy", "rules": COMMON + ["self_to_mut_self"],
              # the two debug_assert!s of the body, as preconditions
              "requires": ["old(self).wf()",
                           "is_in_nursery ==> old(self).collect_nursery@.contains(object)",
                           "!is_in_nursery ==> old(self).from_space@.contains(object)"],
              "ensures": ["final(self).wf()",
                          "final(self).to_space@ =~= old(self).to_space@.insert(object)",
                          "is_in_nursery ==> final(self).collect_nursery@ =~= old(self).collect_nursery@.remove(object) && final(self).from_space@ == old(self).from_space@",
                          "!is_in_nursery ==> final(self).from_space@ =~= old(self).from_space@.remove(object) && final(self).collect_nursery@ == old(self).collect_nursery@",
                          ] + same("alloc_nursery") + ["final(self).all() =~= old(self).all()"],
              "hint_begin": "    broadcast use axiom_objref_key_model;\n"},
             {"kind": "fn", "impl": r"impl\s+TreadMill\b", "name": "is_to_space_empty", "rules": COMMON, "ret_name": "r",
              "ensures": ["r == (self.to_space@.len() == 0)"], "hint_begin": "    broadcast use axiom_objref_key_model;\n"},
             {"kind": "fn", "impl": r"impl\s+TreadMill\b", "name": "is_from_space_empty", "rules": COMMON, "ret_name": "r",
              "ensures": ["r == (self.from_space@.len() == 0)"], "hint_begin": "    broadcast use axiom_objref_key_model;\n"},
             {"kind": "fn", "impl": r"impl\s+TreadMill\b", "name": "is_alloc_nursery_empty", "rules": COMMON, "ret_name": "r",
              "ensures": ["r == (self.alloc_nursery@.len() == 0)"], "hint_begin": "    broadcast use axiom_objref_key_model;\n"},
             {"kind": "fn", "impl": r"impl\s+TreadMill\b", "name": "is_collect_nursery_empty", "rules": COMMON, "ret_name": "r",
              "ensures": ["r == (self.collect_nursery@.len() == 0)"], "hint_begin": "    broadcast use axiom_objref_key_model;\n"},
             {"kind": "fn", "impl": r"impl\s+TreadMill\b", "name": "flip", "rules": COMMON,
              "requires": ["old(self).wf()"],
              "ensures": ["final(self).wf()",
                          "final(self).alloc_nursery@ == old(self).collect_nursery@",
                          "final(self).collect_nursery@ == old(self).alloc_nursery@",
                          "full_heap ==> final(self).from_space@ == old(self).to_space@ && final(self).to_space@ == old(self).from_space@",
                          "!full_heap ==> final(self).from_space@ == old(self).from_space@ && final(self).to_space@ == old(self).to_space@",
                          "final(self).all() =~= old(self).all()"]},
         ]},
    ],
    # Client of the contracts only (no mmtk code): one LOS collection as LargeObjectSpace drives it
    # (prepare: flip; trace: copy each marked object once; release: sweep nursery, and from-space if full heap).
    "client": r'''
pub open spec fn no_dup(v: Seq<ObjectReference>) -> bool {
    forall|i: int, j: int| 0 <= i < j < v.len() ==> v[i] != v[j]
}

/// One LOS GC cycle, written against the contracts above. `young`/`old_marked` are the objects the trace
/// marks, each exactly once (C18 gives "exactly once"), drawn from the sets being collected.
pub fn gc_cycle(tm: &mut TreadMillSync, full_heap: bool, young: &Vec<ObjectReference>, old_marked: &Vec<ObjectReference>)
    -> (swept: (HashSet<ObjectReference>, HashSet<ObjectReference>))
    requires
        old(tm).wf(),
        old(tm).collect_nursery@ == Set::<ObjectReference>::empty(),
        full_heap ==> old(tm).from_space@ == Set::<ObjectReference>::empty(),
        no_dup(young@), no_dup(old_marked@),
        forall|i: int| 0 <= i < young.len() ==> old(tm).alloc_nursery@.contains(#[trigger] young@[i]),
        full_heap ==> forall|i: int| 0 <= i < old_marked.len() ==> old(tm).to_space@.contains(#[trigger] old_marked@[i]),
        !full_heap ==> old_marked.len() == 0,
    ensures
        final(tm).wf(),
        // swept exactly the collected objects that were not marked ...
        swept.0@ =~= old(tm).alloc_nursery@.difference(young@.to_set()),
        full_heap ==> swept.1@ =~= old(tm).to_space@.difference(old_marked@.to_set()),
        !full_heap ==> swept.1@ == Set::<ObjectReference>::empty(),
        // ... each of which is gone from every treadmill set (so it cannot be swept again) ...
        final(tm).all().disjoint(swept.0@), final(tm).all().disjoint(swept.1@),
        // ... and every marked object is kept, in to_space; nothing else is lost
        forall|i: int| 0 <= i < young.len() ==> final(tm).to_space@.contains(#[trigger] young@[i]),
        forall|i: int| 0 <= i < old_marked.len() ==> final(tm).to_space@.contains(#[trigger] old_marked@[i]),
        final(tm).all() + swept.0@ + swept.1@ =~= old(tm).all(),
        final(tm).collect_nursery@ == Set::<ObjectReference>::empty(),
{
    broadcast use axiom_objref_key_model;
    tm.flip(full_heap);
    let ghost after_flip = *tm;
    let mut i: usize = 0;
    while i < young.len()
        invariant
            i <= young.len(), tm.wf(), no_dup(young@),
            tm.collect_nursery@ =~= after_flip.collect_nursery@.difference(young@.subrange(0, i as int).to_set()),
            tm.to_space@ =~= after_flip.to_space@ + young@.subrange(0, i as int).to_set(),
            tm.from_space@ == after_flip.from_space@, tm.alloc_nursery@ == after_flip.alloc_nursery@,
            forall|k: int| 0 <= k < young.len() ==> after_flip.collect_nursery@.contains(#[trigger] young@[k]),
        decreases young.len() - i,
    {
        let o = young[i];
        proof {
            // o is still in collect_nursery: it is not among the first i (no duplicates)
            assert(!young@.subrange(0, i as int).to_set().contains(o)) by {
                if young@.subrange(0, i as int).to_set().contains(o) {
                    let k = choose|k: int| 0 <= k < i && young@.subrange(0, i as int)[k] == o;
                    assert(young@[k] == o);
                }
            }
            assert(young@.subrange(0, i as int + 1) =~= young@.subrange(0, i as int).push(o));
            assert(young@.subrange(0, i as int).push(o).to_set() =~= young@.subrange(0, i as int).to_set().insert(o)) by {
                vstd::seq_lib::lemma_seq_contains_after_push(young@.subrange(0, i as int), o, o);
                assert forall|x: ObjectReference| young@.subrange(0, i as int).push(o).to_set().contains(x)
                    <==> young@.subrange(0, i as int).to_set().insert(o).contains(x) by {
                    vstd::seq_lib::lemma_seq_contains_after_push(young@.subrange(0, i as int), o, x);
                }
            }
        }
        tm.copy(o, true);
        i += 1;
    }
    assert(young@.subrange(0, young.len() as int) =~= young@);
    let ghost after_young = *tm;
    let mut j: usize = 0;
    while j < old_marked.len()
        invariant
            j <= old_marked.len(), tm.wf(), no_dup(old_marked@),
            tm.from_space@ =~= after_young.from_space@.difference(old_marked@.subrange(0, j as int).to_set()),
            tm.to_space@ =~= after_young.to_space@ + old_marked@.subrange(0, j as int).to_set(),
            tm.collect_nursery@ == after_young.collect_nursery@, tm.alloc_nursery@ == after_young.alloc_nursery@,
            forall|k: int| 0 <= k < old_marked.len() ==> after_young.from_space@.contains(#[trigger] old_marked@[k]),
        decreases old_marked.len() - j,
    {
        let o = old_marked[j];
        proof {
            assert(!old_marked@.subrange(0, j as int).to_set().contains(o)) by {
                if old_marked@.subrange(0, j as int).to_set().contains(o) {
                    let k = choose|k: int| 0 <= k < j && old_marked@.subrange(0, j as int)[k] == o;
                    assert(old_marked@[k] == o);
                }
            }
            assert(old_marked@.subrange(0, j as int + 1) =~= old_marked@.subrange(0, j as int).push(o));
            assert forall|x: ObjectReference| old_marked@.subrange(0, j as int).push(o).to_set().contains(x)
                <==> old_marked@.subrange(0, j as int).to_set().insert(o).contains(x) by {
                vstd::seq_lib::lemma_seq_contains_after_push(old_marked@.subrange(0, j as int), o, x);
            }
            assert(old_marked@.subrange(0, j as int).push(o).to_set() =~= old_marked@.subrange(0, j as int).to_set().insert(o));
        }
        tm.copy(o, false);
        j += 1;
    }
    assert(old_marked@.subrange(0, old_marked.len() as int) =~= old_marked@);
    let n = tm.collect_nursery();
    let m = if full_heap { tm.collect_mature() } else { HashSet::new() };
    (n, m)
}
''',
    # vacuity guard: same preconditions / axioms, `ensures false` -- each must fail
    "canaries": r'''
proof fn canary_tm_axioms(s: HashSet<ObjectReference>)
    ensures false
{
    broadcast use axiom_objref_key_model, axiom_hashset_default_empty;
}
fn canary_tm_ops(tm: &mut TreadMillSync, o: ObjectReference)
    requires old(tm).wf(), !old(tm).all().contains(o),
    ensures false
{
    broadcast use axiom_objref_key_model;
    tm.add_to_treadmill(o, true);
    tm.flip(false);
    tm.copy(o, true);
    let _ = tm.collect_nursery();
    let _ = tm.collect_mature();
}
''',
    "dropped": ["the Mutex around TreadMillSync: `self.sync.lock().unwrap()` / `get_mut().unwrap()` (mutual exclusion is NOT verified)",
                "trace!/debug! logging", "debug_assert! (turned into requires clauses of `copy`)",
                "TreadMill::new / Default / Debug impl / enumerate_objects (dyn ObjectEnumerator visitor)"],
    "assumed": ["ObjectReference modelled as an opaque hashable Copy key (struct ObjectReference(usize))",
                "broadcast axiom: ObjectReference obeys vstd's hash key model",
                "assume_specification for core::mem::take (returns the old value, leaves spec_default::<T>())",
                "broadcast axiom: HashSet::<ObjectReference>::default() is empty",
                "vstd's specifications of std HashSet insert/remove/is_empty/new and core::mem::swap"],
}
