"""Unit `compressor_glue` (C37, metadata glue): ForwardingMetadata::{calculate_offset_vector, forward} extracted from
src/policy/compressor/forwarding.rs and verified on top of the Transducer contracts of unit `compressor_fwd` (whose
extracted items and spec layer are included) and of assumed contracts for the two side tables, the mark-bit scan and
the Block / RegionIterator arithmetic. The top-level client proves: after calculate_offset_vector, forward(start of the
n-th live object) == region start + total size of the live objects before it -- for every object layout, every region
length and any number of 512-byte blocks (loop invariant, no bound)."""
import os, importlib.util

_spec = importlib.util.spec_from_file_location("unit_compressor_fwd_for_glue", os.path.join(os.path.dirname(os.path.abspath(__file__)), "compressor_fwd.py"))
_cf = importlib.util.module_from_spec(_spec)
_spec.loader.exec_module(_cf)
CF = _cf.UNIT

F = "src/policy/compressor/forwarding.rs"
FM_IMPL = r"impl<VM:\s*VMBinding>\s+ForwardingMetadata<VM>"
BODY = ["drop_comments", "drop_trailing_comments", "drop_logging", "drop_debug_assert", "compressor_scan_closure", "compressor_offset_calls",
        "drop_mask_ordering_args", "desugar_for_region_iter", "pub_item"]

ENV = r'''
// ================================================================================================
// Assumed environment of the glue functions (listed in the evidence)
// ================================================================================================

/// visit_mark_bit's own precondition at one visited bit
pub open spec fn pre_visit(s: TState, a: int) -> bool {
    s.in_object ==> a >= s.last && s.to + (a - s.last) + 8 <= usize::MAX && a <= usize::MAX
}
/// the visitor's precondition holds at every bit of a scan
pub open spec fn scan_safe(s: TState, marks: Seq<int>) -> bool
    decreases marks.len(),
{
    if marks.len() == 0 { true } else { scan_safe(s, marks.drop_last()) && pre_visit(run(s, marks.drop_last()), marks.last()) && 0 <= marks.last() <= usize::MAX }
}
/// ascending, word-aligned addresses inside [lo, hi)
pub open spec fn marks_wf(m: Seq<int>, lo: int, hi: int) -> bool {
    &&& forall|i: int| 0 <= i < m.len() ==> lo <= #[trigger] m[i] < hi && m[i] % 8 == 0
    &&& forall|i: int, j: int| 0 <= i < j < m.len() ==> m[i] < m[j]
}

/// COMPRESSOR_MARK (1 bit per word): `marks_in(lo, hi)` = addresses of the words of [lo, hi) whose bit is set, ascending.
#[verifier::external_body]
pub struct MarkTable { _p: usize }
impl MarkTable {
    pub uninterp spec fn marks_in(&self, lo: int, hi: int) -> Seq<int>;
    pub axiom fn axiom_wf(&self, lo: int, hi: int)
        ensures marks_wf(self.marks_in(lo, hi), lo, hi);
    pub axiom fn axiom_split(&self, lo: int, mid: int, hi: int)
        requires lo <= mid <= hi,
        ensures self.marks_in(lo, hi) == self.marks_in(lo, mid) + self.marks_in(mid, hi);
    pub axiom fn axiom_empty(&self, lo: int, hi: int)
        requires hi <= lo,
        ensures self.marks_in(lo, hi) == Seq::<int>::empty();

    /// The sequence of addresses `MARK_SPEC.scan_non_zero_values::<u8>(start, end, visitor)` presents to its visitor: exactly
    /// the set bits of [start, end), ascending (the contract of the scan: C22). Rule compressor_scan_closure turns the
    /// scan call into a loop over this sequence that runs the closure's body verbatim.
    #[verifier::external_body]
    pub fn collect(&self, start: Address, end: Address) -> (r: Vec<Address>)
        ensures r@.len() == self.marks_in(start.0 as int, end.0 as int).len(),
                forall|i: int| 0 <= i < r@.len() ==> (#[trigger] r@[i]).0 as int == self.marks_in(start.0 as int, end.0 as int)[i],
    { unimplemented!() }
}

/// COMPRESSOR_OFFSET_VECTOR (one word per 512-byte block): an array of independent word fields (C20).
#[verifier::external_body]
pub struct OffsetTable { _p: usize }
impl OffsetTable {
    pub uninterp spec fn entry(&self, block_start: int) -> int;
    #[verifier::external_body]
    pub fn store_atomic(&mut self, a: Address, v: usize)
        ensures final(self).entry(a.0 as int) == v as int,
                forall|b: int| b != a.0 as int ==> final(self).entry(b) == old(self).entry(b),
    { unimplemented!() }
    #[verifier::external_body]
    pub fn load_atomic(&self, a: Address) -> (r: usize)
        ensures r as int == self.entry(a.0 as int),
    { unimplemented!() }
}

/// forwarding.rs `Block` (Region with LOG_BYTES = 9) and util::linear_scan::{Region, RegionIterator}: assumed contracts.
pub struct Block(pub Address);
impl Block {
    /// `assert!(address.is_aligned_to(512)); Block(address)` -- the assert is the precondition
    #[verifier::external_body]
    pub fn from_aligned_address(a: Address) -> (r: Block)
        requires a.0 % 512 == 0,
        ensures r.0 == a,
    { unimplemented!() }
    /// from_aligned_address(address.align_down(512))  (align_down's contract: C33)
    #[verifier::external_body]
    pub fn from_unaligned_address(a: Address) -> (r: Block)
        ensures r.0.0 % 512 == 0, r.0.0 <= a.0 < r.0.0 + 512,
    { unimplemented!() }
    #[verifier::external_body]
    pub fn start(&self) -> (r: Address) ensures r == self.0 { unimplemented!() }
    #[verifier::external_body]
    pub fn end(&self) -> (r: Address)
        requires self.0.0 + 512 <= usize::MAX,
        ensures r.0 == self.0.0 + 512
    { unimplemented!() }
}
pub struct CompressorRegion(pub Address);
impl CompressorRegion {
    #[verifier::external_body]
    pub fn start(&self) -> (r: Address) ensures r == self.0 { unimplemented!() }
}
pub struct RegionIterator<R> { pub current: R, pub end: R }
impl RegionIterator<Block> {
    #[verifier::external_body]
    pub fn new(start: Block, end: Block) -> (r: RegionIterator<Block>)
        ensures r.current == start, r.end == end
    { unimplemented!() }
    /// yields current and advances by one block while current < end
    #[verifier::external_body]
    pub fn next(&mut self) -> (r: Option<Block>)
        requires old(self).current.0.0 < old(self).end.0.0 ==> old(self).current.0.0 + 512 <= usize::MAX,
        ensures
            final(self).end == old(self).end,
            old(self).current.0.0 < old(self).end.0.0 ==> r == Some(old(self).current) && final(self).current.0.0 == old(self).current.0.0 + 512,
            !(old(self).current.0.0 < old(self).end.0.0) ==> r.is_none() && final(self).current == old(self).current,
    { unimplemented!() }
}
#[verifier::external_body]
pub struct CalcFlag { _p: usize }
impl CalcFlag {
    #[verifier::external_body]
    pub fn store(&self, v: bool) { unimplemented!() }
}

// ================================================================================================
// Specification layer of the glue
// ================================================================================================

/// scan-position invariant of the transducer: `to` never runs ahead of the scan position
pub open spec fn inv_at(s: TState, pos: int) -> bool {
    &&& s.to >= 0 && s.last >= 0 && s.to % 2 == 0 && s.last % 2 == 0
    &&& !s.in_object ==> s.to <= pos
    &&& s.in_object ==> s.to <= s.last && s.last <= pos
}
pub open spec fn init_state(region: int) -> TState { TState { to: region, last: 0, in_object: false } }
/// the transducer state on reaching address `a` of the region
pub open spec fn state_at(marks: MarkTable, region: int, a: int) -> TState { run(init_state(region), marks.marks_in(region, a)) }
/// start of the 512-byte block containing `a`
pub open spec fn blk(a: int) -> int { a - a % 512 }

pub proof fn lemma_run_concat(s: TState, a: Seq<int>, b: Seq<int>)
    ensures run(s, a + b) == run(run(s, a), b),
    decreases b.len(),
{
    if b.len() == 0 {
        assert(a + b =~= a);
    } else {
        lemma_run_concat(s, a, b.drop_last());
        assert((a + b).drop_last() =~= a + b.drop_last());
        assert((a + b).last() == b.last());
    }
}

/// one visited bit at a >= pos keeps the invariant (at a + 8) and meets visit_mark_bit's precondition
pub proof fn lemma_step_inv(s: TState, pos: int, a: int)
    requires inv_at(s, pos), 0 <= pos <= a, a % 8 == 0, a + 8 <= usize::MAX,
    ensures pre_visit(s, a), inv_at(step(s, a), a + 8),
{
    assert(a % 2 == 0) by { assert(a % 8 == 0); }
    if s.in_object {
        assert((s.to + (a - s.last) + 8) % 2 == 0);
    }
}

pub proof fn lemma_inv_at_mono(s: TState, p: int, q: int)
    requires inv_at(s, p), p <= q,
    ensures inv_at(s, q),
{
}

/// From the invariant at `lo`, scanning well-formed marks of [lo, hi) meets the visitor's preconditions and
/// re-establishes the invariant at `hi`.
pub proof fn lemma_scan_safe(s: TState, m: Seq<int>, lo: int, hi: int)
    requires inv_at(s, lo), marks_wf(m, lo, hi), 0 <= lo <= hi, hi % 8 == 0, hi + 8 <= usize::MAX,
    ensures scan_safe(s, m), inv_at(run(s, m), hi),
            m.len() > 0 ==> inv_at(run(s, m), m.last() + 8),
    decreases m.len(),
{
    if m.len() == 0 {
    } else {
        let p = m.drop_last();
        let a = m.last();
        assert(a == m[m.len() - 1]);
        assert(marks_wf(p, lo, hi)) by {
            assert forall|i: int| 0 <= i < p.len() implies lo <= #[trigger] p[i] < hi && p[i] % 8 == 0 by { assert(p[i] == m[i]); }
            assert forall|i: int, j: int| 0 <= i < j < p.len() implies p[i] < p[j] by { assert(p[i] == m[i] && p[j] == m[j]); }
        }
        lemma_scan_safe(s, p, lo, hi);
        let sp = run(s, p);
        // the scan position before visiting a
        let pos = if p.len() > 0 { p.last() + 8 } else { lo };
        if p.len() > 0 {
            assert(p.last() == m[m.len() - 2]);
            assert(m[m.len() - 2] < m[m.len() - 1]);
            assert(p.last() % 8 == 0 && a % 8 == 0);
            assert(p.last() + 8 <= a);
        } else {
            assert(sp == s);
        }
        assert(inv_at(sp, pos) && pos <= a);
        assert(a + 8 <= hi) by { assert(a < hi && a % 8 == 0 && hi % 8 == 0); }
        lemma_step_inv(sp, pos, a);
        assert(run(s, m) == step(sp, a));
        lemma_inv_at_mono(step(sp, a), a + 8, hi);
    }
}

/// k-th step of a safe scan: the visitor's precondition holds, and the prefix run advances by one `step`.
pub proof fn lemma_scan_step(s: TState, m: Seq<int>, k: int)
    requires scan_safe(s, m), 0 <= k < m.len(),
    ensures
        pre_visit(run(s, m.subrange(0, k)), m[k]), 0 <= m[k] <= usize::MAX,
        run(s, m.subrange(0, k + 1)) == step(run(s, m.subrange(0, k)), m[k]),
        k + 1 == m.len() ==> m.subrange(0, k + 1) == m,
    decreases m.len(),
{
    if k + 1 == m.len() {
        assert(m.subrange(0, k + 1) =~= m);
        assert(m.subrange(0, k) =~= m.drop_last());
    } else {
        lemma_scan_step(s, m.drop_last(), k);
        assert(m.drop_last().subrange(0, k) =~= m.subrange(0, k));
        assert(m.drop_last().subrange(0, k + 1) =~= m.subrange(0, k + 1));
        assert(m.drop_last()[k] == m[k]);
    }
    assert(m.subrange(0, k + 1).drop_last() =~= m.subrange(0, k));
    assert(m.subrange(0, k + 1).last() == m[k]);
}

pub proof fn lemma_inv_at_region_prefix(marks: MarkTable, region: int, a: int)
    requires 0 <= region <= a, region % 8 == 0, a % 8 == 0, a + 8 <= usize::MAX,
    ensures inv_at(state_at(marks, region, a), a), scan_safe(init_state(region), marks.marks_in(region, a)),
{
    marks.axiom_wf(region, a);
    lemma_scan_safe(init_state(region), marks.marks_in(region, a), region, a);
}

pub proof fn lemma_decode_inv(s: TState, pos: int)
    requires inv_at(s, pos), pos % 2 == 0, pos >= 0,
    ensures inv_at(decode_spec(encode_spec(s, pos), pos), pos),
{
}

/// one iteration of calculate_offset_vector's loop: scanning block [b, b+512) from the state on reaching b
pub proof fn lemma_block_step(marks: MarkTable, region: int, b: int, s: TState)
    requires s == state_at(marks, region, b), inv_at(s, b), 0 <= region <= b, b % 8 == 0, b + 520 <= usize::MAX,
    ensures
        scan_safe(s, marks.marks_in(b, b + 512)),
        run(s, marks.marks_in(b, b + 512)) == state_at(marks, region, b + 512),
        inv_at(state_at(marks, region, b + 512), b + 512),
{
    marks.axiom_wf(b, b + 512);
    lemma_scan_safe(s, marks.marks_in(b, b + 512), b, b + 512);
    marks.axiom_split(region, b, b + 512);
    lemma_run_concat(init_state(region), marks.marks_in(region, b), marks.marks_in(b, b + 512));
}

// ================================================================================================
// C37 for the real glue: calculate_offset_vector, then forward of the n-th live object of any layout
// ================================================================================================
pub fn client_forward(fm: &mut ForwardingMetadata, region: CompressorRegion, cursor: Address, obj: Address, Ghost(l): Ghost<Layout>, Ghost(n): Ghost<int>) -> (r: Address)
    requires
        wf_layout(l), l.region == region.0.0, 0 <= n < l.starts.len(), obj.0 == l.starts[n],
        region.0.0 % 512 == 0, cursor.0 % 512 == 0, region.0.0 <= obj.0 < cursor.0, cursor.0 + 520 <= usize::MAX,
        // the mark table holds exactly the first-word / last-word bits of the layout's objects
        old(fm).marks.marks_in(region.0.0 as int, obj.0 as int) == marks_upto(l, n),
    ensures
        r.0 as int == l.region + live_before(l, n),
{
    fm.calculate_offset_vector(region, cursor);
    proof {
        let reg = region.0.0 as int;
        let a = obj.0 as int;
        let b = blk(a);
        let m = fm.marks;
        assert(l.starts[n] % 8 == 0);
        assert(b % 512 == 0 && reg <= b <= a && b % 8 == 0 && b % 2 == 0) by {
            assert(reg % 512 == 0);
        }
        let sb = state_at(m, reg, b);
        lemma_inv_at_region_prefix(m, reg, b);
        assert(fm.offsets.entry(b) == encode_spec(sb, b));
        let d = decode_spec(encode_spec(sb, b), b);
        lemma_decode_inv(sb, b);
        m.axiom_wf(b, a);
        lemma_scan_safe(d, m.marks_in(b, a), b, a);
        // the state on reaching the object start: outside any object, to = region + live bytes before
        m.axiom_split(reg, b, a);
        lemma_run_concat(init_state(reg), m.marks_in(reg, b), m.marks_in(b, a));
        lemma_run_prefix(l, n);
        lemma_resume_from_block(sb, b, m.marks_in(b, a));
    }
    fm.forward(obj)
}
'''

CANARIES = r'''
proof fn canary_mark_axioms(m: MarkTable, lo: int, mid: int, hi: int)
    requires lo <= mid <= hi,
    ensures false
{
    m.axiom_wf(lo, hi); m.axiom_wf(lo, mid); m.axiom_wf(mid, hi); m.axiom_split(lo, mid, hi); m.axiom_empty(lo, lo);
}
fn canary_calculate(fm: &mut ForwardingMetadata, region: CompressorRegion, cursor: Address)
    requires region.0.0 % 512 == 0, cursor.0 % 512 == 0, region.0.0 < cursor.0, cursor.0 + 520 <= usize::MAX,
    ensures false
{
    fm.calculate_offset_vector(region, cursor);
}
fn canary_client(fm: &mut ForwardingMetadata, region: CompressorRegion, cursor: Address, obj: Address, Ghost(l): Ghost<Layout>, Ghost(n): Ghost<int>)
    requires
        wf_layout(l), l.region == region.0.0, 0 <= n < l.starts.len(), obj.0 == l.starts[n], n >= 1,
        region.0.0 % 512 == 0, cursor.0 % 512 == 0, region.0.0 <= obj.0 < cursor.0, cursor.0 + 520 <= usize::MAX,
        old(fm).marks.marks_in(region.0.0 as int, obj.0 as int) == marks_upto(l, n),
    ensures false
{
    let _ = client_forward(fm, region, cursor, obj, Ghost(l), Ghost(n));
}
'''

LOOP_INV = (
    "            invariant\n"
    "                self.marks == old(self).marks,\n"
    "                iter.end.0 == cursor, iter.current.0.0 % 512 == 0, region.0.0 <= iter.current.0.0,\n"
    "                iter.current.0.0 <= cursor.0 || iter.current.0.0 == region.0.0,\n"
    "                region.0.0 % 512 == 0, cursor.0 % 512 == 0, cursor.0 + 520 <= usize::MAX,\n"
    "                state@ == state_at(self.marks, region.0.0 as int, iter.current.0.0 as int),\n"
    "                inv_at(state@, iter.current.0.0 as int),\n"
    "                forall|b: int| region.0.0 <= b < iter.current.0.0 && b % 512 == 0 ==>\n"
    "                    #[trigger] self.offsets.entry(b) == encode_spec(state_at(self.marks, region.0.0 as int, b), b),\n"
    "            ensures\n"
    "                iter.current.0.0 >= cursor.0,"
)
M_BLOCK = "self.marks.marks_in(block.0.0 as int, block.0.0 + 512)"
SCAN_INV_COV = (
    "                invariant\n"
    "                    scan_k <= scanned.len(), scanned@.len() == " + M_BLOCK + ".len(),\n"
    "                    forall|i: int| 0 <= i < scanned@.len() ==> (#[trigger] scanned@[i]).0 as int == " + M_BLOCK + "[i],\n"
    "                    scan_safe(scan_from, " + M_BLOCK + "),\n"
    "                    state@ == run(scan_from, " + M_BLOCK + ".subrange(0, scan_k as int)),\n"
    "                    scan_k == scanned.len() ==> state@ == run(scan_from, " + M_BLOCK + "),\n"
    "                    // carried through the scan: what the enclosing block loop needs afterwards\n"
    "                    self.marks == old(self).marks, iter.end.0 == cursor, iter.current.0.0 == block.0.0 + 512,\n"
    "                    block.0.0 % 512 == 0, region.0.0 <= block.0.0, block.0.0 < cursor.0,\n"
    "                    region.0.0 % 512 == 0, cursor.0 % 512 == 0, cursor.0 + 520 <= usize::MAX,\n"
    "                    run(scan_from, " + M_BLOCK + ") == state_at(self.marks, region.0.0 as int, block.0.0 + 512),\n"
    "                    inv_at(state_at(self.marks, region.0.0 as int, block.0.0 + 512), block.0.0 + 512),\n"
    "                    forall|b: int| region.0.0 <= b < iter.current.0.0 && b % 512 == 0 ==>\n"
    "                        #[trigger] self.offsets.entry(b) == encode_spec(state_at(self.marks, region.0.0 as int, b), b),\n"
    "                decreases scanned.len() - scan_k,"
)
M_FWD = "self.marks.marks_in(blk(address.0 as int), address.0 as int)"
SCAN_INV_FWD = (
    "                invariant\n"
    "                    scan_k <= scanned.len(), scanned@.len() == " + M_FWD + ".len(),\n"
    "                    forall|i: int| 0 <= i < scanned@.len() ==> (#[trigger] scanned@[i]).0 as int == " + M_FWD + "[i],\n"
    "                    scan_safe(scan_from, " + M_FWD + "),\n"
    "                    scan_from == decode_spec(self.offsets.entry(blk(address.0 as int)), blk(address.0 as int)),\n"
    "                    state@ == run(scan_from, " + M_FWD + ".subrange(0, scan_k as int)),\n"
    "                    scan_k == scanned.len() ==> state@ == run(scan_from, " + M_FWD + "),\n"
    "                decreases scanned.len() - scan_k,"
)

UNIT = {
    "property": "C37",
    "source": F,
    "uses": CF["uses"],
    "rlimit": 60,
    "prelude": CF["prelude"],
    "groups": CF["groups"] + [
        {"header": None, "items": [
            {"kind": "struct", "file": F, "name": "ForwardingMetadata",
             "rules": ["drop_comments", "drop_attributes", "fwdmeta_struct", "fwdmeta_struct2", "fwdmeta_struct3", "pub_fields", "pub_item"]},
        ]},
        {"header": "impl ForwardingMetadata {", "items": [
            {"kind": "fn", "file": F, "impl": FM_IMPL, "name": "calculate_offset_vector", "rules": BODY + ["self_to_mut_self"],
             "obligation": "glue.calculate_offset_vector", "attrs": "#[verifier::exec_allows_no_decreases_clause]\n",
             "requires": ["region.0.0 % 512 == 0", "cursor.0 % 512 == 0", "region.0.0 <= cursor.0", "cursor.0 + 520 <= usize::MAX"],
             "ensures": ["final(self).marks == old(self).marks",
                         # every block of the region prefix caches the encoded transducer state on reaching the block
                         "forall|b: int| region.0.0 <= b < cursor.0 && b % 512 == 0 ==> "
                         "#[trigger] final(self).offsets.entry(b) == encode_spec(state_at(old(self).marks, region.0.0 as int, b), b)"],
             "loops": {0: LOOP_INV, 1: SCAN_INV_COV},
             "hints_after": [
                 (r"let mut iter = RegionIterator::<Block>::new\([^;]*\);",
                  "        proof { self.marks.axiom_empty(region.0.0 as int, region.0.0 as int); }\n"),
                 (r"let block = match iter\.next\(\) \{ Some\(x\) => x, None => break \};",
                  "            proof { lemma_block_step(self.marks, region.0.0 as int, block.0.0 as int, state@); }\n"),
                 (r"let addr = scanned\[scan_k\];", "                proof { lemma_scan_step(scan_from, " + M_BLOCK + ", scan_k as int); }\n"),
             ]},
            {"kind": "fn", "file": F, "impl": FM_IMPL, "name": "forward", "rules": BODY, "ret_name": "r", "obligation": "glue.forward",
             "loops": {0: SCAN_INV_FWD},
             "hints_after": [(r"let addr = scanned\[scan_k\];", "                proof { lemma_scan_step(scan_from, " + M_FWD + ", scan_k as int); }\n")],
             # weakest precondition: the visitor's preconditions along the scan from the cached block state
             "requires": ["scan_safe(decode_spec(self.offsets.entry(blk(address.0 as int)), blk(address.0 as int)), "
                          "self.marks.marks_in(blk(address.0 as int), address.0 as int))"],
             "ensures": ["r.0 as int == run(decode_spec(self.offsets.entry(blk(address.0 as int)), blk(address.0 as int)), "
                         "self.marks.marks_in(blk(address.0 as int), address.0 as int)).to"]},
        ]},
    ],
    "client": CF["client"] + ENV,
    "canaries": CANARIES,
    "dropped": CF["dropped"] + [
        "ForwardingMetadata: the VM type parameter and PhantomData; Ordering arguments; forward()'s debug_assert on the `calculated` flag",
        "termination of calculate_offset_vector's block loop (exec_allows_no_decreases_clause)",
        "ForwardingMetadata::{new, mark_last_word_of_object, release, scan_marked_objects, has_calculated_forwarding_addresses}"],
    "assumed": CF["assumed"] + [
        "MarkTable (external_body): marks_in(lo, hi) is the ascending sequence of word addresses of [lo, hi) whose mark bit is set (axioms: well-formed, splits at any midpoint, empty on an empty range)",
        "MarkTable::collect = the sequence of addresses MARK_SPEC.scan_non_zero_values::<u8>(start, end, visitor) presents to its visitor: exactly marks_in(start, end), in order (C22's claim); "
        "rule compressor_scan_closure rewrites the scan call into a loop over it that runs the closure body verbatim",
        "OffsetTable (external_body): COMPRESSOR_OFFSET_VECTOR store_atomic / load_atomic as independent word fields (C20's claim)",
        "Block::{from_aligned_address (requires 512-alignment: its assert!), from_unaligned_address (align_down: C33), start, end}, CompressorRegion::start, "
        "RegionIterator::<Block>::{new, next} (external_body): the arithmetic of util::linear_scan::Region / RegionIterator for LOG_BYTES = 9",
        "CalcFlag::store (AtomicBool, opaque)",
        "&self methods that store to side metadata are rendered as &mut self (sequential semantics)",
        "client_forward: the mark table holds exactly the first-word / last-word bits of a well-formed layout (what CompressorSpace::trace_mark_object + mark_last_word_of_object establish)",
    ],
}
