"""Unit `compressor_fwd` (C37): the Compressor's forwarding transducer, extracted from
src/policy/compressor/forwarding.rs over the extracted `Address` arithmetic of src/util/address.rs."""

A = "src/util/address.rs"
F = "src/policy/compressor/forwarding.rs"
BASIC = ["drop_comments", "drop_trailing_comments", "drop_logging", "drop_debug_assert", "drop_attributes"]

UNIT = {
    "property": "C37",
    "source": F,
    "uses": "use std::ops::{Add, Sub};\n",
    "prelude": r'''
global size_of usize == 8;
pub type ByteSize = usize;
pub const BYTES_IN_WORD: usize = 8;   // util::constants::BYTES_IN_WORD on this 64-bit target (checked by the C37 Kani harness)
''',
    "groups": [
        {"header": None, "items": [
            {"kind": "struct", "file": A, "name": "Address", "rules": BASIC + ["pub_item", "pub_tuple_field"],
             "attrs": "#[derive(Copy, Clone)]\n"},
        ]},
        # specifications of the two operator impls (spec text; the impl bodies below are the repository's)
        {"header": None, "spec_text": r'''
impl Address {
    pub open spec fn v(self) -> int { self.0 as int }
}
impl vstd::std_specs::ops::AddSpecImpl<usize> for Address {
    open spec fn obeys_add_spec() -> bool { true }
    open spec fn add_req(self, rhs: usize) -> bool { self.0 + rhs <= usize::MAX }
    open spec fn add_spec(self, rhs: usize) -> Address { Address((self.0 + rhs) as usize) }
}
impl vstd::std_specs::ops::SubSpecImpl<Address> for Address {
    open spec fn obeys_sub_spec() -> bool { true }
    open spec fn sub_req(self, rhs: Address) -> bool { self.0 >= rhs.0 }
    open spec fn sub_spec(self, rhs: Address) -> usize { (self.0 - rhs.0) as usize }
}
''', "items": [
            {"kind": "block", "file": A, "name": "impl Add<ByteSize> for Address", "header": r"impl\s+Add<ByteSize>\s+for\s+Address\b", "rules": BASIC},
            {"kind": "block", "file": A, "name": "impl Sub<Address> for Address", "header": r"impl\s+Sub<Address>\s+for\s+Address\b", "rules": BASIC},
        ]},
        {"header": "impl Address {", "items": [
            {"kind": "const", "file": A, "name": "ZERO", "rules": []},
            {"kind": "fn", "file": A, "impl": r"impl\s+Address\s*(?=\{\s*(?:///?[^\n]*\n\s*)*pub const ZERO)", "name": "from_usize", "rules": BASIC + ["drop_const"],
             "ret_name": "r", "ensures": ["r.0 == raw"]},
            {"kind": "fn", "file": A, "impl": r"impl\s+Address\s*(?=\{\s*(?:///?[^\n]*\n\s*)*pub const ZERO)", "name": "as_usize", "rules": BASIC + ["drop_const"],
             "ret_name": "r", "ensures": ["r == self.0"]},
        ]},
        {"header": None, "items": [
            {"kind": "struct", "name": "Transducer", "rules": BASIC + ["pub_fields", "pub_item"]},
        ]},
        {"header": "impl Transducer {",
         "spec_text": r'''
    /// Abstract view: (to, last_bit_visited, in_object) as mathematical integers.
    pub open spec fn view(&self) -> TState {
        TState { to: self.to.0 as int, last: self.last_bit_visited.0 as int, in_object: self.in_object }
    }
''',
         "items": [
             {"kind": "fn", "impl": r"impl\s+Transducer\b", "name": "new", "rules": BASIC, "ret_name": "r",
              "ensures": ["r@ == (TState { to: to.0 as int, last: 0, in_object: false })"],
              "pre_rules": []},
             {"kind": "fn", "impl": r"impl\s+Transducer\b", "name": "visit_mark_bit", "rules": BASIC + ["op_assign_add"],
              "requires": ["old(self).in_object ==> address.0 >= old(self).last_bit_visited.0",
                           "old(self).in_object ==> old(self).to.0 + (address.0 - old(self).last_bit_visited.0) + 8 <= usize::MAX"],
              "ensures": ["final(self)@ == step(old(self)@, address.0 as int)"]},
             {"kind": "fn", "impl": r"impl\s+Transducer\b", "name": "encode", "rules": BASIC, "ret_name": "r",
              "requires": ["self.in_object ==> current_position.0 >= self.last_bit_visited.0",
                           "self.in_object ==> self.to.0 + (current_position.0 - self.last_bit_visited.0) + 1 <= usize::MAX"],
              "ensures": ["r as int == encode_spec(self@, current_position.0 as int)"]},
             {"kind": "fn", "impl": r"impl\s+Transducer\b", "name": "decode", "rules": BASIC, "ret_name": "r",
              "ensures": ["r@ == decode_spec(offset as int, current_position.0 as int)"],
              "hint_begin": "    proof { lemma_low_bit(offset); }\n"},
         ]},
    ],
    "client_before": "",
    "client": r'''
// ================================================================================================
// Specification layer (mathematical integers) and the lemmas that turn the transducer contracts into C37.
// ================================================================================================

pub struct TState { pub to: int, pub last: int, pub in_object: bool }

/// One visited mark bit (exactly the postcondition of `visit_mark_bit`).
pub open spec fn step(s: TState, a: int) -> TState {
    TState {
        to: if s.in_object { s.to + (a - s.last) + 8 } else { s.to },
        last: a,
        in_object: !s.in_object,
    }
}
pub open spec fn encode_spec(s: TState, pos: int) -> int {
    if s.in_object { s.to + (pos - s.last) + 1 } else { s.to }
}
pub open spec fn decode_spec(offset: int, pos: int) -> TState {
    TState { to: offset - offset % 2, last: pos, in_object: offset % 2 == 1 }
}

pub proof fn lemma_low_bit(x: usize)
    ensures (x & !1usize) as int == x as int - (x as int) % 2, ((x & 1usize) == 1) == ((x as int) % 2 == 1),
{
    assert(x & !1usize == x - (x % 2)) by (bit_vector);
    assert((x & 1usize) == x % 2) by (bit_vector);
}

/// Visiting a sequence of mark-bit addresses.
pub open spec fn run(s: TState, marks: Seq<int>) -> TState
    decreases marks.len(),
{
    if marks.len() == 0 { s } else { step(run(s, marks.drop_last()), marks.last()) }
}

/// decode(encode(s, pos), pos) behaves like s for every later visit (addresses word aligned => `to` stays even).
pub proof fn lemma_encode_decode(s: TState, pos: int, a: int)
    requires s.to % 2 == 0, s.last % 2 == 0, pos % 2 == 0, s.in_object ==> pos >= s.last,
    ensures ({
        let d = decode_spec(encode_spec(s, pos), pos);
        &&& d.in_object == s.in_object
        &&& step(d, a).to == step(s, a).to
        &&& step(d, a).in_object == step(s, a).in_object
        &&& step(d, a).last == step(s, a).last
        &&& (!s.in_object ==> d.to == s.to)
    }),
{
}

/// A well-formed live-object layout inside a region: object i occupies [start(i), start(i) + size(i)), sizes are at
/// least two words and word multiples, objects are in address order and do not overlap, all above the region start.
/// Its mark bits are first word / last word of each object: marks[2i] = start(i), marks[2i+1] = start(i)+size(i)-8.
pub struct Layout { pub region: int, pub starts: Seq<int>, pub sizes: Seq<int> }

pub open spec fn wf_layout(l: Layout) -> bool {
    &&& l.starts.len() == l.sizes.len()
    &&& l.region % 8 == 0
    &&& forall|i: int| 0 <= i < l.starts.len() ==> #[trigger] l.starts[i] % 8 == 0 && l.starts[i] >= l.region
    &&& forall|i: int| 0 <= i < l.sizes.len() ==> #[trigger] l.sizes[i] % 8 == 0 && l.sizes[i] >= 16
    &&& forall|i: int| 0 <= i < l.starts.len() - 1 ==> #[trigger] l.starts[i] + l.sizes[i] <= l.starts[i + 1]
}

pub open spec fn marks_upto(l: Layout, n: int) -> Seq<int>
    decreases n,
{
    if n <= 0 { Seq::empty() } else { marks_upto(l, n - 1).push(l.starts[n - 1]).push(l.starts[n - 1] + l.sizes[n - 1] - 8) }
}

pub open spec fn live_before(l: Layout, n: int) -> int
    decreases n,
{
    if n <= 0 { 0 } else { live_before(l, n - 1) + l.sizes[n - 1] }
}

/// After the transducer (started at the region start) has visited the mark bits of the first n objects, it is
/// outside an object and `to` = region start + total size of those objects.
pub proof fn lemma_run_prefix(l: Layout, n: int)
    requires wf_layout(l), 0 <= n <= l.starts.len(),
    ensures ({
        let s = run(TState { to: l.region, last: 0, in_object: false }, marks_upto(l, n));
        &&& !s.in_object
        &&& s.to == l.region + live_before(l, n)
    }),
    decreases n,
{
    let s0 = TState { to: l.region, last: 0, in_object: false };
    if n > 0 {
        lemma_run_prefix(l, n - 1);
        let m1 = marks_upto(l, n - 1).push(l.starts[n - 1]);
        let m2 = m1.push(l.starts[n - 1] + l.sizes[n - 1] - 8);
        assert(m2.drop_last() =~= m1);
        assert(m1.drop_last() =~= marks_upto(l, n - 1));
        assert(marks_upto(l, n) =~= m2);
        assert(run(s0, m1) == step(run(s0, marks_upto(l, n - 1)), l.starts[n - 1]));
        assert(run(s0, m2) == step(run(s0, m1), l.starts[n - 1] + l.sizes[n - 1] - 8));
    } else {
        assert(marks_upto(l, 0) =~= Seq::<int>::empty());
    }
}

/// The forwarding address of object n is what `forward(start(n))` computes: `to` after visiting every mark bit
/// strictly below start(n), i.e. the marks of the first n objects.
pub open spec fn forwarding_address(l: Layout, n: int) -> int {
    run(TState { to: l.region, last: 0, in_object: false }, marks_upto(l, n)).to
}

pub proof fn lemma_live_before_bound(l: Layout, n: int)
    requires wf_layout(l), 0 <= n < l.starts.len(),
    ensures l.region + live_before(l, n) <= l.starts[n],
    decreases n,
{
    if n > 0 {
        lemma_live_before_bound(l, n - 1);
        assert(l.starts[n - 1] + l.sizes[n - 1] <= l.starts[n - 1 + 1]);
    }
}

pub proof fn lemma_live_before_monotone(l: Layout, i: int, j: int)
    requires wf_layout(l), 0 <= i <= j <= l.starts.len(),
    ensures live_before(l, j) - live_before(l, i) >= 0,
            i < j ==> live_before(l, j) >= live_before(l, i) + l.sizes[i],
    decreases j - i,
{
    if i < j {
        lemma_live_before_monotone(l, i, j - 1);
        if i == j - 1 { } else { }
    }
}

/// C37: forwarding address = region start + live bytes before; order preserving, non-overlapping, never above the
/// original address.
pub proof fn theorem_c37(l: Layout, i: int, j: int)
    requires wf_layout(l), 0 <= i < j < l.starts.len(),
    ensures
        forwarding_address(l, i) == l.region + live_before(l, i),
        forwarding_address(l, j) == l.region + live_before(l, j),
        forwarding_address(l, i) + l.sizes[i] <= forwarding_address(l, j),   // ordered and disjoint
        forwarding_address(l, i) <= l.starts[i], forwarding_address(l, j) <= l.starts[j],   // slides down only
        forwarding_address(l, i) % 8 == 0 ==> true,
{
    lemma_run_prefix(l, i);
    lemma_run_prefix(l, j);
    lemma_live_before_monotone(l, i, j);
    lemma_live_before_bound(l, i);
    lemma_live_before_bound(l, j);
}

/// Block caching (calculate_offset_vector / forward): resuming from the state cached at a block start
/// (`decode(encode(s, pos), pos)`) and visiting the remaining mark bits `sfx` gives the same result as continuing
/// from `s` itself. If the block boundary falls inside an object, the states agree from the next mark bit on.
pub proof fn lemma_resume_from_block(s: TState, pos: int, sfx: Seq<int>)
    requires s.to % 2 == 0, s.last % 2 == 0, pos % 2 == 0, s.in_object ==> pos >= s.last,
    ensures ({
        let d = decode_spec(encode_spec(s, pos), pos);
        &&& run(d, sfx).in_object == run(s, sfx).in_object
        &&& (sfx.len() > 0 ==> run(d, sfx) == run(s, sfx))
        &&& (!s.in_object ==> run(d, sfx).to == run(s, sfx).to)
    }),
    decreases sfx.len(),
{
    let d = decode_spec(encode_spec(s, pos), pos);
    if sfx.len() == 0 {
    } else if sfx.len() == 1 {
        lemma_encode_decode(s, pos, sfx.last());
        assert(sfx.drop_last() =~= Seq::<int>::empty());
        assert(run(d, sfx.drop_last()) == d);
        assert(run(s, sfx.drop_last()) == s);
    } else {
        lemma_resume_from_block(s, pos, sfx.drop_last());
    }
}

/// Exec-level client: the real `visit_mark_bit` driven over the two mark bits of one object advances `to` by the
/// object's size (ties the machine-integer contracts to the integer-level `step`).
pub fn visit_object(t: &mut Transducer, first_word: Address, last_word: Address)
    requires !old(t).in_object, last_word.0 >= first_word.0, old(t).to.0 + (last_word.0 - first_word.0) + 8 <= usize::MAX,
    ensures !final(t).in_object, final(t).to.0 == old(t).to.0 + (last_word.0 - first_word.0) + 8,
{
    t.visit_mark_bit(first_word);
    t.visit_mark_bit(last_word);
}
''',
    "canaries": r'''
fn canary_transducer(t: &mut Transducer, a: Address, b: Address)
    requires !old(t).in_object, b.0 >= a.0, old(t).to.0 + (b.0 - a.0) + 8 <= usize::MAX, a.0 % 8 == 0, b.0 % 8 == 0, old(t).to.0 % 8 == 0,
    ensures false
{
    t.visit_mark_bit(a);
    t.visit_mark_bit(b);
    let e = t.encode(b);
    let d = Transducer::decode(e, b);
}
proof fn canary_theorem(l: Layout, i: int, j: int)
    requires wf_layout(l), 0 <= i < j < l.starts.len(),
    ensures false
{
    theorem_c37(l, i, j);
    lemma_run_prefix(l, j);
}
''',
    "dropped": ["derive attributes on Address/Transducer (Copy/Clone re-declared for Address)", "doc comments",
                "debug_assert! in `Address - Address` (becomes SubSpecImpl::sub_req: lhs >= rhs)",
                "`unsafe { }` around Address::from_usize (a plain constructor)", "`const` on from_usize/as_usize"],
    "assumed": ["usize is 64 bits (global size_of usize == 8)", "BYTES_IN_WORD == 8 re-declared (cross-checked by the Kani harness c37_constants)",
                "the scanning glue (scan_non_zero_values visiting exactly the set mark bits in ascending order) is C22's claim, "
                "and the offset-vector store/load round trip is C20's claim"],
}
