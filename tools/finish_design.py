#!/usr/bin/env python3
"""Refresh the generated tables in DESIGN.md (between <!-- X:begin --> / <!-- X:end --> markers)."""
import subprocess, re, os
V = os.path.dirname(os.path.dirname(os.path.abspath(__file__)))
p = os.path.join(V, "DESIGN.md")
s = open(p).read()
for key, tool in (("SEED_TABLE", "seed_table.py"), ("STATUS_TABLE", "status_table.py")):
    out = subprocess.run(["python3", os.path.join(V, "tools", tool)], capture_output=True, text=True).stdout.strip()
    block = "<!-- %s:begin -->\n%s\n<!-- %s:end -->" % (key, out, key)
    if "@%s@" % key in s:
        s = s.replace("@%s@" % key, block)
    else:
        s = re.sub(r"<!-- %s:begin -->.*?<!-- %s:end -->" % (key, key), lambda m: block, s, flags=re.S)
open(p, "w").write(s)
print("DESIGN.md tables refreshed")
