#!/usr/bin/env python3
"""Collect `./check selftest` outcomes from the background-run logs into mutants/RESULTS.txt."""
import re, glob, os
rows = {}
# rows recorded by earlier sessions (their logs no longer exist): keep unless re-run now
if os.path.exists('/verif/mutants/RESULTS.txt'):
    for l in open('/verif/mutants/RESULTS.txt'):
        m = re.match(r"(\S+\.patch)\s+(killed|SURVIVED\(exit (\d+)\))\s+(.*)", l)
        if m:
            rows[m.group(1)] = ("1" if m.group(2) == "killed" else m.group(3), "?", m.group(4).strip())
for f in sorted(glob.glob('/root/.vp/runs/*/log')) + sorted(glob.glob('/tmp/selftest-*.log')):
    for l in open(f, errors='replace'):
        m = re.match(r"selftest (\S+)\s+exit=(\d+)\s+(\d+)s\s+(.*)", l)
        if m:
            rows[m.group(1)] = (m.group(2), m.group(3), m.group(4).strip())
out = ["# own mutants (mutants/*.patch) and the obligation that killed them in `./check selftest` (exit 1 = killed)", ""]
rows = {k: v for k, v in rows.items() if os.path.exists('/verif/mutants/' + k)}
for k in sorted(rows):
    e, t, o = rows[k]
    out.append("%-52s %s  %s" % (k, "killed  " if e == "1" else "SURVIVED(exit %s)" % e, o[:260]))
have = set(os.path.basename(p) for p in glob.glob('/verif/mutants/*.patch'))
for k in sorted(have - set(rows)):
    out.append("%-52s not run yet" % k)
open('/verif/mutants/RESULTS.txt', 'w').write("\n".join(out) + "\n")
print(len(rows), "results,", len(have - set(rows)), "not run")
