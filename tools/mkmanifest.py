#!/usr/bin/env python3
"""Regenerate /verif/MANIFEST.json from props.py (claims, levels, commands) and /repo's hook commits."""
import json, os, subprocess, sys
V = os.path.dirname(os.path.dirname(os.path.abspath(__file__)))
sys.path.insert(0, V)
import props as P
hooks = subprocess.run(["git", "-C", "/repo", "log", "--format=%H %s", "--reverse"], capture_output=True, text=True).stdout.splitlines()
hook_commits = [l for l in hooks if " verif hooks:" in l]
checks = []
READY = [p for p in sorted(P.PROPS) if P.PROPS[p].get("ready", True)]
for pid in READY:
    s = P.PROPS[pid]
    checks.append({
        "property_id": pid,
        "quick_cmd": "./check %s --tier quick" % pid,
        "thorough_cmd": "./check %s --tier thorough" % pid,
        "evidence_file": "/verif/evidence/%s.json" % pid,
        "replay_cmd_template": "./check %s --replay {path}" % pid,
        "engine": s.get("engine", "kani"),
        "level_claimed": {"category": s["level"], "text": s["claim"] if "claim" in s else s["explanation"], "design_ref": "DESIGN.md section 5, " + pid},
        "level_note": "; ".join(s.get("assumptions", []) + s.get("trusted_base", [])) or "see evidence",
        "technique": s.get("technique", "Kani function contracts / full-domain symbolic harnesses on the real crate (CBMC)"),
    })
NA = {k: v for k, v in P.NOT_APPLICABLE.items() if k not in READY}
for line in open(os.path.join(V, "properties.jsonl")):
    pid = json.loads(line)["id"]
    if pid not in READY and pid not in NA:
        NA[pid] = "not claimed yet: the check planned in DESIGN.md section 5 has not been built/validated at this commit"
m = {
    "version": 1,
    "setup_cmd": "./check setup",
    "hooks": {
        "guard": "cfg(kani) for in-place contract attributes; cfg(any(kani, mmtk_verif)) for the verif_contracts / verif_hooks modules",
        "enable": "cargo kani sets --cfg kani itself (harness crate /verif/kani has a path dependency on /repo); native replays: cargo kani playback",
        "baseline_off_cmd": "cd /repo && cargo nextest run --workspace --no-fail-fast --test-threads 8 --offline || cargo test --workspace --no-fail-fast --offline",
        "source_commits": hook_commits,
        "add_only": True,
    },
    "engines": [
        {"name": "kani", "path": "/verif/kani", "serves_properties": [p for p in READY if P.PROPS[p].get("kani")],
         "kind_free_text": "Kani 0.68 function contracts (in place, cfg(kani)) and full-domain symbolic proof harnesses over the real mmtk crate, discharged by CBMC 6.11"},
        {"name": "verus", "path": "/verif/verus", "serves_properties": [p for p in READY if P.PROPS[p].get("verus")],
         "kind_free_text": "Verus 0.2026.09.13 on items mechanically extracted from /repo on every run (requires/ensures/invariants spliced in)"},
    ],
    "checks": checks,
    "not_applicable": [{"property_id": k, "reason": v} for k, v in sorted(NA.items())],
    "notes": "See DESIGN.md. Exit 2 from a check means undecided (lost anchor, cap hit), never an alarm.",
}
json.dump(m, open(os.path.join(V, "MANIFEST.json"), "w"), indent=1)
print("checks:", len(checks), "not_applicable:", len(m["not_applicable"]))
