#!/usr/bin/env python3
"""seed_store.py <seed-id> <property> <worktree> <demo-args> <needs...>  -- write seeded/<id>/meta.json after seed_confirm.sh."""
import sys, json, os, subprocess, re
sid, prop, wt, demo = sys.argv[1:5]
needs = " ".join(sys.argv[5:])
d = os.path.join("/verif/seeded", sid)
log = open(os.path.join(d, "confirm.log")).read()
base = [l for l in open("/verif/seeded/.baseline_suite.txt") if re.match(r"test .* \.\.\. ", l)]
brk = [l for l in open(os.path.join(d, ".suite_break.txt")) if re.match(r"test .* \.\.\. ", l)]
with_break = log.split("== demo WITH break")[1].split("== demo WITHOUT break")[0]
without = log.split("== demo WITHOUT break")[1]
meta = {
    "seed": sid, "property": prop,
    "break_commit_subject": re.search(r"== break commit: \w+ (.*)", log).group(1),
    "files_changed": re.findall(r"^\+\+\+ b/(.*)$", open(os.path.join(d, "patch.diff")).read(), re.M),
    "needs_to_manifest": needs,
    "author": "fresh sub-agent given only the property text and a scratch worktree (nothing from /verif)",
    "confirmed": {
        "suite_cmd": "cargo test --workspace --no-fail-fast --offline (in the scratch worktree, break commit only)",
        "suite_identical_to_baseline": base == brk, "suite_ok_count": sum("... ok" in l for l in brk),
        "demo_cmd": "cargo test --offline " + demo,
        "demo_fails_with_change": "FAILED" in with_break, "demo_passes_without_change": "test result: ok" in without and "FAILED" not in without,
    },
}
json.dump(meta, open(os.path.join(d, "meta.json"), "w"), indent=1)
os.remove(os.path.join(d, ".suite_break.txt"))
print(json.dumps(meta["confirmed"]))
