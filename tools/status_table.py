#!/usr/bin/env python3
"""Print the per-property status table for DESIGN.md section 9.6 from props.py."""
import sys, os, json
sys.path.insert(0, os.path.dirname(os.path.dirname(os.path.abspath(__file__))))
import props as P
print("| property | status | level | engine | bound that remains |\n|---|---|---|---|---|")
ids = [json.loads(l)["id"] for l in open("/verif/properties.jsonl")]
for pid in ids:
    if pid in P.PROPS and P.PROPS[pid].get("ready", True):
        s = P.PROPS[pid]
        eng = "Verus" + (" + Kani" if s.get("kani") else "") if s.get("verus") else "Kani"
        print("| %s | claimed | %s | %s | %s |" % (pid, s["level"], eng, "; ".join(s.get("bounds", []))[:230]))
    elif pid in P.PROPS:
        print("| %s | built, not registered (not yet validated) | %s | | |" % (pid, P.PROPS[pid]["level"]))
    else:
        print("| %s | not applicable | | | %s |" % (pid, P.NOT_APPLICABLE.get(pid, "")[:160]))
