#!/bin/bash
# development queue: devq.sh <key> <ids...> runs checks one after the other in build/<key>, logs in /tmp/dev-<id>.log
key=$1; shift
for id in "$@"; do VERIF_NO_PLAYBACK=1 VERIF_KEY=$key timeout 7200 /verif/check $id > /tmp/dev-$id.log 2>&1; echo "$id exit=$?" >> /tmp/devq.done; done
