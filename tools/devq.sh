#!/bin/bash
# development queue: run checks one after the other in the 'dev' build directory, logs in /tmp/dev-<id>.log
for id in "$@"; do VERIF_KEY=dev timeout 7200 /verif/check $id > /tmp/dev-$id.log 2>&1; echo "$id exit=$?" >> /tmp/devq.done; done
