#!/usr/bin/env python3
"""Print the markdown table of seeded changes (seeded/*/meta.json + result.json) for DESIGN.md section 9.5."""
import json, glob, os
rows = []
for d in sorted(glob.glob("/verif/seeded/*/meta.json")):
    m = json.load(open(d))
    rp = os.path.join(os.path.dirname(d), "result.json")
    r = json.load(open(rp)) if os.path.exists(rp) else None
    if r is None:
        det, by = "not run", ""
    else:
        det = "**caught**" if r["detected"] else "missed"
        by = "; ".join("%s: %s" % (x["property"], ", ".join(sorted({o for f in x["failed_obligations"] for o in [f["obligations"][:90]]}))[:200]) for x in r["runs"] if x["detected"])
        if not r["detected"]:
            by = "; ".join("%s exit %d" % (x["property"], x["exit"]) for x in r["runs"])
            if any(x["exit"] == 2 for x in r["runs"]):
                det = "undecided"
        if m.get("note"):
            by += " -- " + m["note"][:260]
    rows.append("| %s | %s | %s | %s | %s |" % (m["seed"], m["property"], m["break_commit_subject"].replace("break: ", "")[:110], det, by))
print("| seed | property | change | result | failing obligation(s) |\n|---|---|---|---|---|")
print("\n".join(rows))
