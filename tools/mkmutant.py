#!/usr/bin/env python3
"""mkmutant.py <name> <file-relative-to-repo> <old-text> <new-text> : write mutants/<name>.patch (unified diff, -p1)."""
import sys, difflib, os
name, rel, old, new = sys.argv[1:5]
src = open(os.path.join('/repo', rel)).read()
assert src.count(old) == 1, "old text occurs %d times" % src.count(old)
dst = src.replace(old, new)
d = difflib.unified_diff(src.splitlines(True), dst.splitlines(True), 'a/' + rel, 'b/' + rel)
out = os.path.join(os.path.dirname(os.path.dirname(os.path.abspath(__file__))), 'mutants', name + '.patch')
mode = 'a' if len(sys.argv) > 5 and sys.argv[5] == '--append' else 'w'
open(out, mode).write(''.join(d))
print(out)
