#!/bin/bash
# usage: seed_confirm.sh <seed-id> <worktree> "<demo cargo test args>"
# Confirms a seeded property-breaking change produced in a scratch worktree (two commits: break, demo) and
# stores it as /verif/seeded/<seed-id>/{patch.diff,demo.diff,confirm.log}.
set -u
ID=$1; W=$2; DEMO=$3
OUT=/verif/seeded/$ID; mkdir -p $OUT
export CARGO_TARGET_DIR=$W/target CARGO_NET_OFFLINE=true
cd $W || exit 2
BREAK=$(git log --format=%H --grep='^break:' -1); DEMOC=$(git log --format=%H --grep='^demo:' -1)
[ -n "$BREAK" ] && [ -n "$DEMOC" ] || { echo "missing commits"; exit 2; }
git diff $BREAK~1 $BREAK > $OUT/patch.diff
git diff $BREAK $DEMOC > $OUT/demo.diff
{
echo "== break commit: $(git log --format='%h %s' -1 $BREAK)"; echo "== demo commit: $(git log --format='%h %s' -1 $DEMOC)"
# 1. full suite with the break only
git checkout -q $BREAK
cargo test --workspace --no-fail-fast --offline 2>&1 | grep -E "^test .* \.\.\. |^test result" | sort > $OUT/.suite_break.txt
grep -c "\.\.\. ok" $OUT/.suite_break.txt; grep "\.\.\. FAILED" $OUT/.suite_break.txt
# 2. demo with the break
git checkout -q $DEMOC
echo "== demo WITH break: cargo test --offline $DEMO"
cargo test --offline $DEMO 2>&1 | grep -E "^test result|panicked|^test .*FAILED" | head -12
# 3. demo without the break
git diff $BREAK~1 $BREAK | git apply -R
echo "== demo WITHOUT break:"
cargo test --offline $DEMO 2>&1 | grep -E "^test result|panicked|^test .*FAILED" | head -12
git checkout -q -- . ; git checkout -q $DEMOC
} > $OUT/confirm.log 2>&1
cat $OUT/confirm.log
