//! C32 — space descriptors encode and decode their heap range.
use crate::layout::*;
use mmtk::util::heap::vm_layout::VMLayout;
use mmtk::util::Address;
use mmtk::verif_hooks::SpaceDescriptor;

const LOG_BYTES_IN_CHUNK: usize = 22;
const BASE_EXPONENT: usize = 32 - 14;

fn addr(x: usize) -> Address {
    unsafe { Address::from_usize(x) }
}

/// (a) the 32-bit style mantissa/exponent/size encoding (`force_use_contiguous_spaces == false`).
/// Precondition = what the encoding admits: chunk-aligned non-zero start, 1..=1023 chunks, and a start whose
/// odd part (after dropping 18 + exponent zero bits) fits the mantissa field with exponent < 32.
#[kani::proof]
#[kani::unwind(48)]
#[kani::stub(mmtk::util::heap::layout::vm_layout::vm_layout, stub_vm_layout)]
fn c32_roundtrip_encoding32() {
    set_layout(any_valid_layout(false));
    let start: usize = kani::any();
    let chunks: usize = kani::any();
    kani::assume(start != 0 && start & ((1 << LOG_BYTES_IN_CHUNK) - 1) == 0);
    kani::assume(chunks >= 1 && chunks < 1024);
    kani::assume(start <= usize::MAX - (chunks << LOG_BYTES_IN_CHUNK));
    // encoding limits: exponent (number of trailing zeros above bit 18) < 32, mantissa < 2^(64-17)
    let tz = (start >> BASE_EXPONENT).trailing_zeros() as usize;
    kani::assume(tz < 32);
    kani::assume((start >> (BASE_EXPONENT + tz)) < (1usize << (usize::BITS as usize - 17)));
    let end = start + (chunks << LOG_BYTES_IN_CHUNK);
    let d = SpaceDescriptor::create_descriptor_from_heap_range(addr(start), addr(end));
    assert!(d.get_start() == addr(start), "C32.enc32.start_roundtrip");
    assert!(d.get_extent() == end - start, "C32.enc32.extent_roundtrip");
    assert!(d.is_contiguous(), "C32.enc32.is_contiguous");
    assert!(d.is_contiguous_hi() == (addr(end) == stub_vm_layout().heap_end), "C32.enc32.top_flag");
    assert!(!d.is_empty(), "C32.enc32.not_empty");
    kani::cover!(tz == 31, "C32.cover.max_exponent");
    kani::cover!(tz == 4 && chunks == 1023, "C32.cover.min_exponent_max_chunks");
    kani::cover!(start < (1 << 32) && d.is_contiguous_hi(), "C32.cover.32bit_range_top");
    kani::cover!(start > (1 << 40), "C32.cover.high_start");
}

/// The same under the concrete 32-bit layout constants, for every range inside its heap.
#[kani::proof]
#[kani::unwind(48)]
#[kani::stub(mmtk::util::heap::layout::vm_layout::vm_layout, stub_vm_layout)]
fn c32_roundtrip_layout32() {
    set_layout(VMLayout::new_32bit());
    let l = stub_vm_layout();
    let start: usize = kani::any();
    let chunks: usize = kani::any();
    kani::assume(start & ((1 << LOG_BYTES_IN_CHUNK) - 1) == 0);
    kani::assume(start >= l.heap_start.as_usize());
    kani::assume(chunks >= 1 && chunks < 1024);
    kani::assume(start <= l.heap_end.as_usize() && (chunks << LOG_BYTES_IN_CHUNK) <= l.heap_end.as_usize() - start);
    let end = start + (chunks << LOG_BYTES_IN_CHUNK);
    let d = SpaceDescriptor::create_descriptor_from_heap_range(addr(start), addr(end));
    assert!(d.get_start() == addr(start), "C32.layout32.start_roundtrip");
    assert!(d.get_extent() == end - start, "C32.layout32.extent_roundtrip");
    assert!(d.is_contiguous() && !d.is_empty(), "C32.layout32.is_contiguous");
    assert!(d.is_contiguous_hi() == (addr(end) == l.heap_end), "C32.layout32.top_flag");
    kani::cover!(d.is_contiguous_hi(), "C32.cover.layout32_top");
}

/// (b) `force_use_contiguous_spaces == true` (the 64-bit layouts): the descriptor is the space index.
#[kani::proof]
#[kani::stub(mmtk::util::heap::layout::vm_layout::vm_layout, stub_vm_layout)]
fn c32_contiguous64() {
    set_layout(any_valid_layout(true));
    let l = stub_vm_layout();
    let ext = 1usize << l.log_space_extent;
    let start: usize = kani::any();
    let end: usize = kani::any();
    // a space of the 64-bit layout: extent-aligned start inside the heap, end within one extent
    kani::assume(start & (ext - 1) == 0 && start >= l.heap_start.as_usize() && start < l.heap_end.as_usize());
    kani::assume(end > start && end - start <= ext);
    let d = SpaceDescriptor::create_descriptor_from_heap_range(addr(start), addr(end));
    assert!(d.get_start() == addr(start), "C32.contig64.start_roundtrip");
    assert!(d.get_extent() == ext, "C32.contig64.extent_is_space_extent");
    assert!(d.get_index() == start >> l.log_space_extent, "C32.contig64.index");
    assert!(d.is_contiguous(), "C32.contig64.is_contiguous");
    assert!(d.is_contiguous_hi() == (addr(end) == l.heap_end), "C32.contig64.top_flag");
    // index 0 with the plain contiguous flag is still distinguishable from UNINITIALIZED
    assert!(!d.is_empty(), "C32.contig64.not_empty");
    kani::cover!(d.is_contiguous_hi(), "C32.cover.contig64_top");
    kani::cover!(l.log_space_extent == 41 && start == 0x0000_0200_0000_0000, "C32.cover.default_layout_first_space");
}

/// Discontiguous descriptors: non-contiguous, non-empty, pairwise distinct for successive counter values.
#[kani::proof]
fn c32_discontiguous() {
    let d1 = SpaceDescriptor::create_descriptor();
    let d2 = SpaceDescriptor::create_descriptor();
    let d3 = SpaceDescriptor::create_descriptor();
    assert!(!d1.is_contiguous() && !d2.is_contiguous() && !d3.is_contiguous(), "C32.discontig.not_contiguous");
    assert!(!d1.is_contiguous_hi() && !d2.is_contiguous_hi(), "C32.discontig.not_hi");
    assert!(!d1.is_empty() && !d2.is_empty() && !d3.is_empty(), "C32.discontig.not_empty");
    assert!(d1 != d2 && d2 != d3 && d1 != d3, "C32.discontig.distinct");
    assert!(d2.get_index() == d1.get_index() + 1 && d3.get_index() == d2.get_index() + 1, "C32.discontig.index_increments");
}
