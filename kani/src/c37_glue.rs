//! C37 (metadata glue) — EXPERIMENTS, not part of the check: CBMC does not finish the inlined variants within 25 minutes
//! and aborts (status 6) on the modular variant; see DESIGN.md 9.2.
//!
//! C37 (metadata glue, bounded) — ForwardingMetadata::{calculate_offset_vector, forward} agree with the prefix-sum
//! of live object sizes, on a region prefix of three 512-byte blocks with up to three live objects placed
//! symbolically (first/last-word mark bits set by the harness), including objects spanning block boundaries and
//! covering whole blocks. The two side tables (COMPRESSOR_MARK, COMPRESSOR_OFFSET_VECTOR) are parallel tables 2^41
//! bytes apart, so instead of relocating the shared base, `SideMetadataSpec::get_starting_address` is stubbed to
//! give each of the two specs its own harness buffer. The Transducer itself is proved unboundedly by the Verus unit.
use crate::vm::KVM0;
use mmtk::util::metadata::side_metadata::SideMetadataSpec;
use mmtk::util::Address;
use mmtk::verif_hooks::compressor_fwd as cf;
use mmtk::verif_hooks::side_layout::spec_defs::{COMPRESSOR_MARK, COMPRESSOR_OFFSET_VECTOR};

const BLOCKS: usize = 3;
const WORDS: usize = BLOCKS * 64; // 8-byte words in the prefix

static mut MARK_START: usize = 0;
static mut OV_START: usize = 0;

/// Replacement for `SideMetadataSpec::get_starting_address`: per-spec table start.
fn stub_starting_address(s: &SideMetadataSpec) -> Address {
    unsafe {
        if s.offset == COMPRESSOR_MARK.offset {
            Address::from_usize(MARK_START)
        } else {
            assert!(s.offset == COMPRESSOR_OFFSET_VECTOR.offset, "C37.glue.only_the_two_compressor_tables_are_accessed");
            Address::from_usize(OV_START)
        }
    }
}

#[repr(C, align(8))]
struct Marks([u8; BLOCKS * 8 + 8]);
#[repr(C, align(8))]
struct Offsets([u64; BLOCKS + 1]);

fn addr(x: usize) -> Address {
    unsafe { Address::from_usize(x) }
}

#[kani::proof]
#[kani::unwind(10)]
#[kani::stub(mmtk::util::metadata::side_metadata::SideMetadataSpec::get_starting_address, stub_starting_address)]
fn c37_offset_vector_and_forward_exp() {
    // region start: 1 MiB aligned, symbolic
    let r: usize = kani::any();
    kani::assume(r % (1 << 20) == 0 && r >= (1 << 20) && r <= (1usize << 46));
    let mut marks = Marks([0; BLOCKS * 8 + 8]);
    let mut offs = Offsets(kani::any());
    let mark_addr = Address::from_mut_ptr(marks.0.as_mut_ptr()).as_usize();
    let ov_addr = Address::from_mut_ptr(offs.0.as_mut_ptr()).as_usize();
    // table start such that the metadata of data address r is byte 0 of the buffer
    kani::assume(r / 64 <= mark_addr && r / 64 <= ov_addr);
    unsafe {
        MARK_START = mark_addr - r / 64;
        OV_START = ov_addr - r / 64;
    }
    // up to three live objects: (start word, size in words >= 2), ascending and non-overlapping, inside the prefix
    let n: usize = kani::any();
    kani::assume(n <= 3);
    let (s0, z0, s1, z1, s2, z2): (usize, usize, usize, usize, usize, usize) = (kani::any(), kani::any(), kani::any(), kani::any(), kani::any(), kani::any());
    kani::assume(z0 >= 2 && z1 >= 2 && z2 >= 2);
    kani::assume(s0 < WORDS && s0 + z0 <= WORDS);
    kani::assume(n < 2 || (s1 >= s0 + z0 && s1 + z1 <= WORDS));
    kani::assume(n < 3 || (s2 >= s1 + z1 && s2 + z2 <= WORDS));
    let set = |m: &mut Marks, w: usize| m.0[w / 8] |= 1 << (w % 8);
    if n >= 1 {
        set(&mut marks, s0);
        set(&mut marks, s0 + z0 - 1);
    }
    if n >= 2 {
        set(&mut marks, s1);
        set(&mut marks, s1 + z1 - 1);
    }
    if n >= 3 {
        set(&mut marks, s2);
        set(&mut marks, s2 + z2 - 1);
    }
    let fm = cf::ForwardingMetadata::<KVM0>::new();
    cf::calculate_offset_vector(&fm, addr(r), addr(r + BLOCKS * 512));
    assert!(fm.has_calculated_forwarding_addresses(), "C37.glue.calculated_flag_set");
    // forwarding addresses are the prefix sums of live sizes
    if n >= 1 {
        assert!(fm.forward(addr(r + 8 * s0)).as_usize() == r, "C37.forward.first_object_goes_to_region_start");
    }
    if n >= 2 {
        assert!(fm.forward(addr(r + 8 * s1)).as_usize() == r + 8 * z0, "C37.forward.second_object_follows_the_first");
    }
    if n >= 3 {
        assert!(fm.forward(addr(r + 8 * s2)).as_usize() == r + 8 * (z0 + z1), "C37.forward.third_object_follows_the_second");
    }
    // the offset-vector entry of block b encodes the live bytes before the block (flag bit 0 = inside an object)
    let b: usize = kani::any();
    kani::assume(b < BLOCKS);
    let bw = b * 64; // first word of block b
    let live_before = |s: usize, z: usize| -> (usize, bool) {
        // (live bytes of this object strictly before word bw, block start lies strictly inside the object i.e. after its first word and at or before its last)
        if bw <= s {
            (0, false)
        } else if bw >= s + z {
            (8 * z, false)
        } else {
            (0, true)
        }
    };
    let mut total = 0;
    let mut inside = false;
    let mut inside_from = 0;
    let objs = [(s0, z0, n >= 1), (s1, z1, n >= 2), (s2, z2, n >= 3)];
    let mut i = 0;
    while i < 3 {
        if objs[i].2 {
            let (l, ins) = live_before(objs[i].0, objs[i].1);
            total += l;
            if ins {
                inside = true;
                inside_from = objs[i].0;
            }
        }
        i += 1;
    }
    let entry = offs.0[b] as usize;
    if inside {
        // inside an object: the entry carries the live bytes up to the block start, flagged odd
        assert!(entry & 1 == 1 && (entry & !1) == r + total + 8 * (bw - inside_from), "C37.offset_vector.entry_inside_object");
    } else {
        assert!(entry == r + total, "C37.offset_vector.entry_is_live_bytes_before_block");
    }
    kani::cover!(n == 2 && z0 > 70 && s0 > 3 && (s0 + z0) / 64 == s1 / 64, "C37.cover.object_covers_a_whole_block_and_another_follows_in_its_last_block");
    kani::cover!(n == 3 && s1 / 64 != (s1 + z1 - 1) / 64, "C37.cover.object_spans_one_block_boundary");
    kani::cover!(n == 0, "C37.cover.empty_region");
    std::mem::forget(marks);
    std::mem::forget(offs);
}

/// Lighter variant for the quick tier: exactly two live objects in the three-block prefix, the forwarding address of
/// the second one and a symbolic offset-vector entry are checked (object 0 may cover a whole block).
#[kani::proof]
#[kani::unwind(8)]
#[kani::stub(mmtk::util::metadata::side_metadata::SideMetadataSpec::get_starting_address, stub_starting_address)]
fn c37_two_objects_forward_second_exp() {
    let r: usize = kani::any();
    kani::assume(r % (1 << 20) == 0 && r >= (1 << 20) && r <= (1usize << 46));
    let mut marks = Marks([0; BLOCKS * 8 + 8]);
    let mut offs = Offsets(kani::any());
    let mark_addr = Address::from_mut_ptr(marks.0.as_mut_ptr()).as_usize();
    let ov_addr = Address::from_mut_ptr(offs.0.as_mut_ptr()).as_usize();
    kani::assume(r / 64 <= mark_addr && r / 64 <= ov_addr);
    unsafe {
        MARK_START = mark_addr - r / 64;
        OV_START = ov_addr - r / 64;
    }
    let (s0, z0, s1, z1): (usize, usize, usize, usize) = (kani::any(), kani::any(), kani::any(), kani::any());
    kani::assume(z0 >= 2 && z1 >= 2 && s0 < WORDS && s0 + z0 <= WORDS && s1 >= s0 + z0 && s1 < WORDS && s1 + z1 <= WORDS);
    marks.0[s0 / 8] |= 1 << (s0 % 8);
    marks.0[(s0 + z0 - 1) / 8] |= 1 << ((s0 + z0 - 1) % 8);
    marks.0[s1 / 8] |= 1 << (s1 % 8);
    marks.0[(s1 + z1 - 1) / 8] |= 1 << ((s1 + z1 - 1) % 8);
    let fm = cf::ForwardingMetadata::<KVM0>::new();
    cf::calculate_offset_vector(&fm, addr(r), addr(r + BLOCKS * 512));
    assert!(fm.forward(addr(r + 8 * s1)).as_usize() == r + 8 * z0, "C37.forward.second_object_follows_the_first");
    let b: usize = kani::any();
    kani::assume(b < BLOCKS);
    let bw = b * 64;
    let entry = offs.0[b] as usize;
    let (mut total, mut inside, mut from) = (0usize, false, 0usize);
    if bw > s0 {
        if bw >= s0 + z0 { total += 8 * z0 } else { inside = true; from = s0 }
    }
    if bw > s1 {
        if bw >= s1 + z1 { total += 8 * z1 } else { inside = true; from = s1 }
    }
    if inside {
        assert!(entry & 1 == 1 && (entry & !1) == r + total + 8 * (bw - from), "C37.offset_vector.entry_inside_object");
    } else {
        assert!(entry == r + total, "C37.offset_vector.entry_is_live_bytes_before_block");
    }
    kani::cover!(z0 > 70 && s0 > 3 && (s0 + z0) / 64 == s1 / 64, "C37.cover.object_covers_a_whole_block_and_another_follows_in_its_last_block");
    kani::cover!(s1 / 64 != (s1 + z1 - 1) / 64 && z0 < 10, "C37.cover.second_object_spans_a_block_boundary");
    std::mem::forget(marks);
    std::mem::forget(offs);
}

/// Contract of `SideMetadataSpec::scan_non_zero_values` for the 1-bit-per-word mark table (C22 discharges it on
/// bounded windows): the visitor is called with the address of every word of [start, end) whose mark bit is set, in
/// ascending order, each once. Implemented as a plain word-by-word walk over the harness' mark buffer.
fn contract_scan<T: mmtk::util::metadata::MetadataValue, F: FnMut(Address)>(_spec: &SideMetadataSpec, start: Address, end: Address, visit: &mut F) {
    unsafe {
        let (s, e) = (start.as_usize(), end.as_usize());
        assert!(s % 8 == 0 && s <= e && s >= REGION && e <= REGION + BLOCKS * 512, "C37.modular.scan_called_inside_the_region_prefix");
        let mut w = (s - REGION) / 8;
        let we = (e - REGION + 7) / 8;
        while w < we {
            let byte = *((MARK_BUF + w / 8) as *const u8);
            if (byte >> (w % 8)) & 1 == 1 {
                visit(Address::from_usize(REGION + 8 * w));
            }
            w += 1;
        }
    }
}
static mut REGION: usize = 0;
static mut MARK_BUF: usize = 0;

/// calculate_offset_vector / forward against the contract of scan_non_zero_values (modular): up to three live objects
/// in a three-block region prefix, including objects spanning block boundaries and covering whole blocks.
#[kani::proof]
#[kani::unwind(66)]
#[kani::stub(mmtk::util::metadata::side_metadata::SideMetadataSpec::get_starting_address, stub_starting_address)]
#[kani::stub(mmtk::util::metadata::side_metadata::SideMetadataSpec::scan_non_zero_values, contract_scan)]
fn c37_offset_vector_and_forward_modular_exp() {
    let r: usize = kani::any();
    kani::assume(r % (1 << 20) == 0 && r >= (1 << 20) && r <= (1usize << 46));
    let mut marks = Marks([0; BLOCKS * 8 + 8]);
    let mut offs = Offsets(kani::any());
    let mark_addr = Address::from_mut_ptr(marks.0.as_mut_ptr()).as_usize();
    let ov_addr = Address::from_mut_ptr(offs.0.as_mut_ptr()).as_usize();
    kani::assume(r / 64 <= mark_addr && r / 64 <= ov_addr);
    unsafe {
        MARK_START = mark_addr - r / 64;
        OV_START = ov_addr - r / 64;
        REGION = r;
        MARK_BUF = mark_addr;
    }
    let n: usize = kani::any();
    kani::assume(n >= 1 && n <= 3);
    let (s0, z0, s1, z1, s2, z2): (usize, usize, usize, usize, usize, usize) = (kani::any(), kani::any(), kani::any(), kani::any(), kani::any(), kani::any());
    kani::assume(z0 >= 2 && z1 >= 2 && z2 >= 2);
    kani::assume(s0 < WORDS && s0 + z0 <= WORDS);
    kani::assume(n < 2 || (s1 >= s0 + z0 && s1 < WORDS && s1 + z1 <= WORDS));
    kani::assume(n < 3 || (s2 >= s1 + z1 && s2 < WORDS && s2 + z2 <= WORDS));
    let set = |m: &mut Marks, w: usize| m.0[w / 8] |= 1 << (w % 8);
    set(&mut marks, s0);
    set(&mut marks, s0 + z0 - 1);
    if n >= 2 {
        set(&mut marks, s1);
        set(&mut marks, s1 + z1 - 1);
    }
    if n >= 3 {
        set(&mut marks, s2);
        set(&mut marks, s2 + z2 - 1);
    }
    let fm = cf::ForwardingMetadata::<KVM0>::new();
    cf::calculate_offset_vector(&fm, addr(r), addr(r + BLOCKS * 512));
    // the forwarding address of the LAST object is region start + total size of the live objects before it
    let (sl, before) = if n == 1 { (s0, 0) } else if n == 2 { (s1, z0) } else { (s2, z0 + z1) };
    assert!(fm.forward(addr(r + 8 * sl)).as_usize() == r + 8 * before, "C37.forward.address_is_region_start_plus_live_bytes_before");
    // every offset-vector entry encodes the live bytes before its block (flagged when the block starts inside an object)
    let b: usize = kani::any();
    kani::assume(b < BLOCKS);
    let bw = b * 64;
    let entry = offs.0[b] as usize;
    let objs = [(s0, z0, true), (s1, z1, n >= 2), (s2, z2, n >= 3)];
    let (mut total, mut inside, mut from) = (0usize, false, 0usize);
    let mut i = 0;
    while i < 3 {
        let (s, z, live) = objs[i];
        if live && bw > s {
            if bw >= s + z {
                total += 8 * z;
            } else {
                inside = true;
                from = s;
            }
        }
        i += 1;
    }
    if inside {
        assert!(entry & 1 == 1 && (entry & !1) == r + total + 8 * (bw - from), "C37.offset_vector.entry_inside_object");
    } else {
        assert!(entry == r + total, "C37.offset_vector.entry_is_live_bytes_before_block");
    }
    kani::cover!(n == 2 && z0 > 70 && s0 > 3 && (s0 + z0) / 64 == s1 / 64, "C37.cover.object_covers_a_whole_block_and_another_follows_in_its_last_block");
    kani::cover!(n == 3 && s1 / 64 != (s1 + z1 - 1) / 64, "C37.cover.object_spans_one_block_boundary");
    std::mem::forget(marks);
    std::mem::forget(offs);
}
