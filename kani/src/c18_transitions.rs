//! C18 — mark / log / pin state changes succeed exactly once (sequential kernel).
//!
//! For every metadata placement of the binding family (LAYOUT 0: on the side, 1: header bits above the forwarding
//! word, 2: header byte below the object reference), symbolic surrounding header / side-table bits and a symbolic field
//! position in the side table: the first transition call observes the transition as its own (returns true) and leaves
//! the transitioned state, an immediately following call (the "other thread", after the first one finished) returns
//! false and changes nothing, and no bit outside the field changes. The retry loops exit after one iteration when
//! nothing interferes (unwinding assertion). Overlapping executions and the atomicity of each CAS are NOT covered.
use crate::obj::*;
use crate::side::stub_base;
use crate::vm::*;
use mmtk::util::metadata::MetadataSpec;
use mmtk::util::ObjectReference;
use mmtk::verif_hooks::MarkState;
use mmtk::vm::{ObjectModel, VMBinding};
use std::sync::atomic::Ordering;

fn check_mark_state<VM: VMBinding>(flip: bool) {
    let spec: MetadataSpec = *VM::VMObjectModel::LOCAL_MARK_BIT_SPEC.as_spec();
    let mut env = Env::new();
    env.place(&spec);
    let obj = env.object();
    let pos = env.pos(&spec);
    let mut ms = MarkState::new();
    let marked_value: u64 = if flip && spec.is_in_header() {
        ms.on_global_release::<VM>();
        0
    } else {
        if flip {
            ms.on_global_release::<VM>(); // side mark bits are cleared in bulk instead: the state must not flip
        }
        1
    };
    let s0 = env.snap();
    let was_marked = field(&s0, pos) == marked_value;
    assert!(ms.is_marked::<VM>(obj) == was_marked, "C18.mark_state.is_marked_reads_the_field");
    let first = ms.test_and_mark::<VM>(obj);
    let s1 = env.snap();
    assert!(first == !was_marked, "C18.mark_state.first_marker_wins_iff_unmarked");
    assert!(field(&s1, pos) == marked_value, "C18.mark_state.final_state_is_marked");
    assert!(frame(&s0, &s1, pos, None), "C18.mark_state.touches_only_the_mark_bit");
    let second = ms.test_and_mark::<VM>(obj);
    let s2 = env.snap();
    assert!(!second, "C18.mark_state.second_marker_loses");
    assert!(same(&s1, &s2), "C18.mark_state.losing_marker_changes_nothing");
    assert!(ms.is_marked::<VM>(obj), "C18.mark_state.is_marked_after_marking");
    kani::cover!(first, "C18.cover.mark_transition_taken");
    kani::cover!(!first, "C18.cover.already_marked");
}

fn check_mark_bit_spec<VM: VMBinding>() {
    let spec: MetadataSpec = *VM::VMObjectModel::LOCAL_MARK_BIT_SPEC.as_spec();
    let mut env = Env::new();
    env.place(&spec);
    let obj = env.object();
    let pos = env.pos(&spec);
    let s0 = env.snap();
    assert!(VM::VMObjectModel::LOCAL_MARK_BIT_SPEC.is_marked::<VM>(obj, Ordering::SeqCst) == (field(&s0, pos) == 1), "C18.mark_bit.is_marked_reads_the_field");
    VM::VMObjectModel::LOCAL_MARK_BIT_SPEC.mark::<VM>(obj, Ordering::SeqCst);
    let s1 = env.snap();
    assert!(field(&s1, pos) == 1 && frame(&s0, &s1, pos, None), "C18.mark_bit.mark_sets_only_the_mark_bit");
    assert!(VM::VMObjectModel::LOCAL_MARK_BIT_SPEC.is_marked::<VM>(obj, Ordering::SeqCst), "C18.mark_bit.is_marked_after_mark");
}

#[cfg(feature = "object_pinning")]
fn check_pin<VM: VMBinding>() {
    let spec: MetadataSpec = *VM::VMObjectModel::LOCAL_PINNING_BIT_SPEC.as_spec();
    let mut env = Env::new();
    env.place(&spec);
    let obj = env.object();
    let pos = env.pos(&spec);
    let s0 = env.snap();
    let pinned0 = field(&s0, pos) == 1;
    assert!(VM::VMObjectModel::LOCAL_PINNING_BIT_SPEC.is_object_pinned::<VM>(obj) == pinned0, "C18.pin.is_object_pinned_reads_the_field");
    let unpin: bool = kani::any();
    if unpin {
        let first = VM::VMObjectModel::LOCAL_PINNING_BIT_SPEC.unpin_object::<VM>(obj);
        let s1 = env.snap();
        assert!(first == pinned0, "C18.unpin.first_unpinner_wins_iff_pinned");
        assert!(field(&s1, pos) == 0 && frame(&s0, &s1, pos, None), "C18.unpin.final_state_unpinned_only_pin_bit_touched");
        let second = VM::VMObjectModel::LOCAL_PINNING_BIT_SPEC.unpin_object::<VM>(obj);
        assert!(!second && same(&s1, &env.snap()), "C18.unpin.second_unpinner_loses_and_changes_nothing");
    } else {
        let first = VM::VMObjectModel::LOCAL_PINNING_BIT_SPEC.pin_object::<VM>(obj);
        let s1 = env.snap();
        assert!(first == !pinned0, "C18.pin.first_pinner_wins_iff_unpinned");
        assert!(field(&s1, pos) == 1 && frame(&s0, &s1, pos, None), "C18.pin.final_state_pinned_only_pin_bit_touched");
        let second = VM::VMObjectModel::LOCAL_PINNING_BIT_SPEC.pin_object::<VM>(obj);
        assert!(!second && same(&s1, &env.snap()), "C18.pin.second_pinner_loses_and_changes_nothing");
        assert!(VM::VMObjectModel::LOCAL_PINNING_BIT_SPEC.is_object_pinned::<VM>(obj), "C18.pin.is_pinned_after_pin");
    }
}

struct Sem<VM: VMBinding>(std::marker::PhantomData<VM>);
impl<VM: VMBinding> mmtk::verif_hooks::barriers::BarrierSemantics for Sem<VM> {
    type VM = VM;
    fn flush(&mut self) {}
    fn object_reference_write_slow(&mut self, _src: ObjectReference, _slot: VM::VMSlot, _target: Option<ObjectReference>) {
        unimplemented!()
    }
    fn memory_region_copy_slow(&mut self, _src: VM::VMMemorySlice, _dst: VM::VMMemorySlice) {
        unimplemented!()
    }
}

fn check_log<VM: VMBinding>() {
    use mmtk::verif_hooks::barriers as b;
    let spec: MetadataSpec = *VM::VMObjectModel::GLOBAL_LOG_BIT_SPEC.as_spec();
    let mut env = Env::new();
    env.place(&spec);
    let obj = env.object();
    let pos = env.pos(&spec);
    let barrier = b::ObjectBarrier::new(Sem::<VM>(std::marker::PhantomData));
    let s0 = env.snap();
    let unlogged0 = field(&s0, pos) == 1;
    assert!(b::object_is_unlogged(&barrier, obj) == unlogged0, "C18.log.object_is_unlogged_reads_the_field");
    assert!(VM::VMObjectModel::GLOBAL_LOG_BIT_SPEC.is_unlogged::<VM>(obj, Ordering::SeqCst) == unlogged0, "C18.log.is_unlogged_reads_the_field");
    let first = b::log_object(&barrier, obj);
    let s1 = env.snap();
    assert!(first == unlogged0, "C18.log.first_logger_wins_iff_unlogged");
    assert!(field(&s1, pos) == 0, "C18.log.final_state_is_logged");
    assert!(frame(&s0, &s1, pos, None), "C18.log.touches_only_the_log_bit");
    let second = b::log_object(&barrier, obj);
    assert!(!second && same(&s1, &env.snap()), "C18.log.second_logger_loses_and_changes_nothing");
    // the inverse transition used when an object is (re)unlogged
    VM::VMObjectModel::GLOBAL_LOG_BIT_SPEC.mark_as_unlogged::<VM>(obj, Ordering::SeqCst);
    let s3 = env.snap();
    assert!(field(&s3, pos) == 1 && frame(&s1, &s3, pos, None), "C18.log.mark_as_unlogged_sets_only_the_log_bit");
    kani::cover!(first, "C18.cover.log_transition_taken");
}

macro_rules! c18 {
    ($name:ident, $f:ident, $vm:ty $(, $arg:expr)*) => {
        #[kani::proof]
        #[kani::unwind(6)]
        #[kani::stub(mmtk::util::metadata::side_metadata::global_side_metadata_base_address, stub_base)]
        fn $name() {
            $f::<$vm>($($arg),*);
        }
    };
}
type V0 = KVM<8, 64, 0>;
type V1 = KVM<8, 64, 1>;
type V2 = KVM<8, 64, 2>;
c18!(c18_mark_state_side, check_mark_state, V0, false);
c18!(c18_mark_state_side_after_release, check_mark_state, V0, true);
c18!(c18_mark_state_header_hi, check_mark_state, V1, false);
c18!(c18_mark_state_header_hi_flipped, check_mark_state, V1, true);
c18!(c18_mark_state_header_lo, check_mark_state, V2, false);
c18!(c18_mark_state_header_lo_flipped, check_mark_state, V2, true);
c18!(c18_mark_bit_side, check_mark_bit_spec, V0);
c18!(c18_mark_bit_header_lo, check_mark_bit_spec, V2);
c18!(c18_log_side, check_log, V0);
c18!(c18_log_header_hi, check_log, V1);
c18!(c18_log_header_lo, check_log, V2);
#[cfg(feature = "object_pinning")]
c18!(c18_pin_side, check_pin, V0);
#[cfg(feature = "object_pinning")]
c18!(c18_pin_header_hi, check_pin, V1);
#[cfg(feature = "object_pinning")]
c18!(c18_pin_header_lo, check_pin, V2);

/// The transition loops against the interference contract of the metadata CAS (see interference.rs): with finitely
/// many spurious CAS failures (neighbouring bits of the byte changed by other threads), a caller is told the
/// transition was its own only if this call performed it, and is told otherwise only if the object was already in the
/// target state.
fn check_mark_under_interference<VM: VMBinding>() {
    use crate::interference::*;
    let spec: MetadataSpec = *VM::VMObjectModel::LOCAL_MARK_BIT_SPEC.as_spec();
    let mut env = Env::new();
    env.place(&spec);
    let obj = env.object();
    let pos = env.pos(&spec);
    let ms = MarkState::new();
    let s0 = env.snap();
    let was_marked = field(&s0, pos) == 1;
    unsafe {
        SPURIOUS_BUDGET = 2;
        SPURIOUS_SEEN = 0;
    }
    let won = ms.test_and_mark::<VM>(obj);
    let s1 = env.snap();
    assert!(won == !was_marked, "C18.mark_state.wins_iff_it_performed_the_transition_despite_interference");
    assert!(field(&s1, pos) == 1 && frame(&s0, &s1, pos, None), "C18.mark_state.final_state_marked_despite_interference");
    kani::cover!(won && unsafe { SPURIOUS_SEEN } == 2, "C18.cover.marked_after_two_interferences");
}

fn check_log_under_interference<VM: VMBinding>() {
    use crate::interference::*;
    use mmtk::verif_hooks::barriers as b;
    let spec: MetadataSpec = *VM::VMObjectModel::GLOBAL_LOG_BIT_SPEC.as_spec();
    let mut env = Env::new();
    env.place(&spec);
    let obj = env.object();
    let pos = env.pos(&spec);
    let barrier = b::ObjectBarrier::new(Sem::<VM>(std::marker::PhantomData));
    let s0 = env.snap();
    let unlogged0 = field(&s0, pos) == 1;
    unsafe {
        SPURIOUS_BUDGET = 2;
        SPURIOUS_SEEN = 0;
    }
    let won = b::log_object(&barrier, obj);
    let s1 = env.snap();
    assert!(won == unlogged0, "C18.log.wins_iff_it_performed_the_transition_despite_interference");
    assert!(field(&s1, pos) == 0 && frame(&s0, &s1, pos, None), "C18.log.final_state_logged_despite_interference");
    kani::cover!(won && unsafe { SPURIOUS_SEEN } == 2, "C18.cover.logged_after_two_interferences");
}

macro_rules! c18i {
    ($name:ident, $f:ident, $vm:ty) => {
        #[kani::proof]
        #[kani::unwind(6)]
        #[kani::stub(mmtk::util::metadata::side_metadata::global_side_metadata_base_address, stub_base)]
        #[kani::stub(mmtk::util::metadata::MetadataSpec::compare_exchange_metadata, crate::interference::cas_contract)]
        fn $name() {
            $f::<$vm>();
        }
    };
}
c18i!(c18_mark_under_interference_side, check_mark_under_interference, V0);
c18i!(c18_mark_under_interference_header, check_mark_under_interference, V2);
c18i!(c18_log_under_interference_side, check_log_under_interference, V0);
c18i!(c18_log_under_interference_header, check_log_under_interference, V2);
