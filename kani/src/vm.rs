//! Minimal VM binding family `KVM<MINA, MAXA, LAYOUT>` used to instantiate VM-generic mmtk code in
//! the harnesses. The trait bodies come from `/repo/docs/dummyvm` (every callback the verified
//! functions do not reach is `unimplemented!()`, so reaching one is a failing check).
//!
//! * `MINA` / `MAXA`: `VMBinding::MIN_ALIGNMENT` / `MAX_ALIGNMENT`.
//! * `LAYOUT`: placement of the per-object metadata specs, see `layout()`.
#![allow(dead_code)]

use mmtk::util::copy::{CopySemantics, GCWorkerCopyContext};
use mmtk::util::opaque_pointer::*;
use mmtk::util::{Address, ObjectReference};
use mmtk::vm::slot::{SimpleSlot, UnimplementedMemorySlice};
use mmtk::vm::*;
use mmtk::Mutator;

#[derive(Default)]
pub struct KVM<const MINA: usize, const MAXA: usize, const LAYOUT: usize>;

/// The default binding of the harnesses: 8-byte min alignment, 64-byte max alignment, all metadata on the side.
pub type KVM0 = KVM<8, 64, 0>;

impl<const MINA: usize, const MAXA: usize, const LAYOUT: usize> VMBinding
    for KVM<MINA, MAXA, LAYOUT>
{
    type VMObjectModel = KObjectModel<MINA, MAXA, LAYOUT>;
    type VMScanning = KScanning;
    type VMCollection = KCollection;
    type VMActivePlan = KActivePlan;
    type VMReferenceGlue = KReferenceGlue;
    type VMSlot = SimpleSlot;
    type VMMemorySlice = UnimplementedMemorySlice;
    const MIN_ALIGNMENT: usize = MINA;
    const MAX_ALIGNMENT: usize = MAXA;
}

pub struct KObjectModel<const MINA: usize, const MAXA: usize, const LAYOUT: usize>;

/// Metadata placement variants.
/// * 0: everything on the side (forwarding pointer in header word 0, as it must be).
/// * 1: everything in the header: forwarding bits = bits 0..2 of the forwarding-pointer word
///      (header bits 0..64), mark bit = header bit 2 ... wait see consts below.
/// * 2: forwarding bits in a separate header byte *below* the object reference (negative offset),
///      mark/pin/log/nursery bits packed in the same negative byte.
pub struct Specs {
    pub log: VMGlobalLogBitSpec,
    pub fwd_ptr: VMLocalForwardingPointerSpec,
    pub fwd_bits: VMLocalForwardingBitsSpec,
    pub mark: VMLocalMarkBitSpec,
    #[cfg(feature = "object_pinning")]
    pub pin: VMLocalPinningBitSpec,
    pub nursery: VMLocalLOSMarkNurserySpec,
}

pub const fn layout(l: usize) -> Specs {
    match l {
        0 | 4 => {
            let fwd_bits = VMLocalForwardingBitsSpec::side_first();
            let mark = VMLocalMarkBitSpec::side_after(fwd_bits.as_spec());
            #[cfg(feature = "object_pinning")]
            let pin = VMLocalPinningBitSpec::side_after(mark.as_spec());
            #[cfg(feature = "object_pinning")]
            let nursery = VMLocalLOSMarkNurserySpec::side_after(pin.as_spec());
            #[cfg(not(feature = "object_pinning"))]
            let nursery = VMLocalLOSMarkNurserySpec::side_after(mark.as_spec());
            Specs {
                log: VMGlobalLogBitSpec::side_first(),
                fwd_ptr: VMLocalForwardingPointerSpec::in_header(0),
                fwd_bits,
                mark,
                #[cfg(feature = "object_pinning")]
                pin,
                nursery,
            }
        }
        // All in header; forwarding bits share the forwarding-pointer word (its two low bits).
        1 => Specs {
            log: VMGlobalLogBitSpec::in_header(66),
            fwd_ptr: VMLocalForwardingPointerSpec::in_header(0),
            fwd_bits: VMLocalForwardingBitsSpec::in_header(0),
            mark: VMLocalMarkBitSpec::in_header(67),
            #[cfg(feature = "object_pinning")]
            pin: VMLocalPinningBitSpec::in_header(68),
            nursery: VMLocalLOSMarkNurserySpec::in_header(70),
        },
        // All in header; forwarding bits in the TOP byte of the forwarding-pointer word (bits 56..58), which the pointer
        // mask 0x00ff_ffff_ffff_fff8 exists for.
        3 => Specs {
            log: VMGlobalLogBitSpec::in_header(66),
            fwd_ptr: VMLocalForwardingPointerSpec::in_header(0),
            fwd_bits: VMLocalForwardingBitsSpec::in_header(56),
            mark: VMLocalMarkBitSpec::in_header(67),
            #[cfg(feature = "object_pinning")]
            pin: VMLocalPinningBitSpec::in_header(68),
            nursery: VMLocalLOSMarkNurserySpec::in_header(70),
        },
        // All in header; everything except the forwarding pointer lives in the byte below the reference.
        _ => Specs {
            log: VMGlobalLogBitSpec::in_header(-1),
            fwd_ptr: VMLocalForwardingPointerSpec::in_header(0),
            fwd_bits: VMLocalForwardingBitsSpec::in_header(-8),
            mark: VMLocalMarkBitSpec::in_header(-5),
            #[cfg(feature = "object_pinning")]
            pin: VMLocalPinningBitSpec::in_header(-6),
            nursery: VMLocalLOSMarkNurserySpec::in_header(-4),
        },
    }
}

/// Harness-controlled results of the VM callbacks that verified code does reach.
pub mod ctl {
    use std::sync::atomic::{AtomicUsize, Ordering};
    pub static CURRENT_SIZE: AtomicUsize = AtomicUsize::new(0);
    pub static COPY_RESULT: AtomicUsize = AtomicUsize::new(0);
    pub static COPY_CALLS: AtomicUsize = AtomicUsize::new(0);
    pub fn set_current_size(s: usize) {
        CURRENT_SIZE.store(s, Ordering::Relaxed)
    }
    pub fn set_copy_result(a: usize) {
        COPY_RESULT.store(a, Ordering::Relaxed)
    }
    pub fn copy_calls() -> usize {
        COPY_CALLS.load(Ordering::Relaxed)
    }
}

impl<const MINA: usize, const MAXA: usize, const LAYOUT: usize>
    ObjectModel<KVM<MINA, MAXA, LAYOUT>> for KObjectModel<MINA, MAXA, LAYOUT>
{
    const GLOBAL_LOG_BIT_SPEC: VMGlobalLogBitSpec = layout(LAYOUT).log;
    const LOCAL_FORWARDING_POINTER_SPEC: VMLocalForwardingPointerSpec = layout(LAYOUT).fwd_ptr;
    const LOCAL_FORWARDING_BITS_SPEC: VMLocalForwardingBitsSpec = layout(LAYOUT).fwd_bits;
    const LOCAL_MARK_BIT_SPEC: VMLocalMarkBitSpec = layout(LAYOUT).mark;
    #[cfg(feature = "object_pinning")]
    const LOCAL_PINNING_BIT_SPEC: VMLocalPinningBitSpec = layout(LAYOUT).pin;
    const LOCAL_LOS_MARK_NURSERY_SPEC: VMLocalLOSMarkNurserySpec = layout(LAYOUT).nursery;

    /// LAYOUT 4: the object reference points 16 bytes past the object start (a header precedes it).
    const OBJECT_REF_OFFSET_LOWER_BOUND: isize = if LAYOUT == 4 { 16 } else { 0 };

    fn copy(
        _from: ObjectReference,
        _semantics: CopySemantics,
        _copy_context: &mut GCWorkerCopyContext<KVM<MINA, MAXA, LAYOUT>>,
    ) -> ObjectReference {
        use std::sync::atomic::Ordering;
        ctl::COPY_CALLS.fetch_add(1, Ordering::Relaxed);
        ObjectReference::from_raw_address(unsafe {
            Address::from_usize(ctl::COPY_RESULT.load(Ordering::Relaxed))
        })
        .unwrap()
    }
    fn copy_to(_from: ObjectReference, _to: ObjectReference, _region: Address) -> Address {
        unimplemented!()
    }
    fn get_current_size(_object: ObjectReference) -> usize {
        ctl::CURRENT_SIZE.load(std::sync::atomic::Ordering::Relaxed)
    }
    fn get_size_when_copied(object: ObjectReference) -> usize {
        Self::get_current_size(object)
    }
    fn get_align_when_copied(_object: ObjectReference) -> usize {
        unimplemented!()
    }
    fn get_align_offset_when_copied(_object: ObjectReference) -> usize {
        unimplemented!()
    }
    fn get_reference_when_copied_to(_from: ObjectReference, _to: Address) -> ObjectReference {
        unimplemented!()
    }
    fn get_type_descriptor(_reference: ObjectReference) -> &'static [i8] {
        unimplemented!()
    }
    fn ref_to_object_start(object: ObjectReference) -> Address {
        if LAYOUT == 4 {
            object.to_raw_address() - 16usize
        } else {
            object.to_raw_address()
        }
    }
    fn ref_to_header(object: ObjectReference) -> Address {
        object.to_raw_address()
    }
    fn dump_object(_object: ObjectReference) {
        unimplemented!()
    }
}

pub struct KScanning;
impl<const MINA: usize, const MAXA: usize, const LAYOUT: usize> Scanning<KVM<MINA, MAXA, LAYOUT>>
    for KScanning
{
    fn scan_roots_in_mutator_thread(
        _tls: VMWorkerThread,
        _mutator: &'static mut Mutator<KVM<MINA, MAXA, LAYOUT>>,
        _factory: impl RootsWorkFactory<SimpleSlot>,
    ) {
        unimplemented!()
    }
    fn scan_vm_specific_roots(_tls: VMWorkerThread, _factory: impl RootsWorkFactory<SimpleSlot>) {
        unimplemented!()
    }
    fn scan_object<SV: SlotVisitor<SimpleSlot>>(
        _tls: VMWorkerThread,
        _object: ObjectReference,
        _slot_visitor: &mut SV,
    ) {
        unimplemented!()
    }
    fn notify_initial_thread_scan_complete(_partial_scan: bool, _tls: VMWorkerThread) {
        unimplemented!()
    }
    fn supports_return_barrier() -> bool {
        unimplemented!()
    }
    fn prepare_for_roots_re_scanning() {
        unimplemented!()
    }
}

pub struct KCollection;
impl<const MINA: usize, const MAXA: usize, const LAYOUT: usize> Collection<KVM<MINA, MAXA, LAYOUT>>
    for KCollection
{
    fn stop_all_mutators<F>(_tls: VMWorkerThread, _mutator_visitor: F)
    where
        F: FnMut(&'static mut Mutator<KVM<MINA, MAXA, LAYOUT>>),
    {
        unimplemented!()
    }
    fn resume_mutators(_tls: VMWorkerThread) {
        unimplemented!()
    }
    fn block_for_gc(_tls: VMMutatorThread) {
        unimplemented!()
    }
    fn spawn_gc_thread(_tls: VMThread, _ctx: GCThreadContext<KVM<MINA, MAXA, LAYOUT>>) {
        unimplemented!()
    }
}

pub struct KActivePlan;
impl<const MINA: usize, const MAXA: usize, const LAYOUT: usize> ActivePlan<KVM<MINA, MAXA, LAYOUT>>
    for KActivePlan
{
    fn number_of_mutators() -> usize {
        unimplemented!()
    }
    fn is_mutator(_tls: VMThread) -> bool {
        true
    }
    fn mutator(_tls: VMMutatorThread) -> &'static mut Mutator<KVM<MINA, MAXA, LAYOUT>> {
        unimplemented!()
    }
    fn mutators<'a>() -> Box<dyn Iterator<Item = &'a mut Mutator<KVM<MINA, MAXA, LAYOUT>>> + 'a> {
        unimplemented!()
    }
}

pub struct KReferenceGlue;
impl<const MINA: usize, const MAXA: usize, const LAYOUT: usize>
    ReferenceGlue<KVM<MINA, MAXA, LAYOUT>> for KReferenceGlue
{
    type FinalizableType = ObjectReference;
    fn set_referent(_reference: ObjectReference, _referent: ObjectReference) {
        unimplemented!()
    }
    fn get_referent(_object: ObjectReference) -> Option<ObjectReference> {
        unimplemented!()
    }
    fn clear_referent(_object: ObjectReference) {
        unimplemented!()
    }
    fn enqueue_references(_references: &[ObjectReference], _tls: VMWorkerThread) {
        unimplemented!()
    }
}
