//! Rely/guarantee-style contract of `MetadataSpec::compare_exchange_metadata` for callers that race with other
//! threads (C17, C18): the CAS either succeeds (the field held `old`; it now holds `new`; previous value returned),
//! or fails returning the field's current value. Because sub-byte fields are exchanged with a byte-wide cmpxchg, the
//! CAS may ALSO fail although the field still holds `old` -- when a neighbouring field of the same byte was changed
//! by another thread between the load and the cmpxchg. The stub models exactly that: a bounded number of spurious
//! failures (interference is finite), reporting the unchanged field value. A caller that is correct against this
//! contract handles every such interference; a caller that treats any failure as "someone else won" is not.
use mmtk::util::metadata::{MetadataSpec, MetadataValue};
use mmtk::util::ObjectReference;
use mmtk::vm::VMBinding;
use std::sync::atomic::Ordering;

pub static mut SPURIOUS_BUDGET: usize = 0;
pub static mut SPURIOUS_SEEN: usize = 0;
pub static mut CAS_CALLS: usize = 0;

pub fn cas_contract<VM: VMBinding, T: MetadataValue>(
    spec: &MetadataSpec,
    object: ObjectReference,
    old_val: T,
    new_val: T,
    mask: Option<T>,
    success_order: Ordering,
    _failure_order: Ordering,
) -> Result<T, T> {
    unsafe { CAS_CALLS += 1 };
    let cur = spec.load_atomic::<VM, T>(object, mask, Ordering::SeqCst);
    if unsafe { SPURIOUS_BUDGET > 0 } && kani::any() {
        unsafe {
            SPURIOUS_BUDGET -= 1;
            SPURIOUS_SEEN += 1;
        }
        return Err(cur);
    }
    if cur == old_val {
        spec.store_atomic::<VM, T>(object, new_val, mask, success_order);
        Ok(cur)
    } else {
        Err(cur)
    }
}
