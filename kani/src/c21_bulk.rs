//! C21 — bulk side-metadata zero/set/copy touch exactly the covered regions.
use crate::side::*;
use mmtk::util::metadata::side_metadata::SideMetadataSpec;
use mmtk::util::Address;
use mmtk::verif_hooks::{break_bit_range, side_global as sg, BitByteRange};

fn addr(x: usize) -> Address {
    unsafe { Address::from_usize(x) }
}

/// A visited piece as a half-open bit interval [lo, hi) of the metadata bit space (bit index = 8*byte + bit).
fn piece_bits(r: BitByteRange) -> (usize, usize) {
    match r {
        BitByteRange::Bytes { start, end } => (start.as_usize() * 8, end.as_usize() * 8),
        BitByteRange::BitsInByte { addr, bit_start, bit_end } => {
            (addr.as_usize() * 8 + bit_start as usize, addr.as_usize() * 8 + bit_end as usize)
        }
    }
}

/// (a) `break_bit_range` tiles the bit interval: at most three non-empty pieces, pairwise disjoint, in ascending
/// (descending) order, whose union is exactly [8*start+sb, 8*end+eb); sub-byte pieces stay inside one byte;
/// the walk stops at the first piece for which the visitor returns true and reports it.
#[kani::proof]
fn c21_break_bit_range_tiles() {
    let (sa, ea): (usize, usize) = (kani::any(), kani::any());
    let (sb, eb): (u8, u8) = (kani::any(), kani::any());
    let forwards: bool = kani::any();
    kani::assume(sb < 8 && eb < 8);
    kani::assume(ea < (1usize << 60) && sa <= ea && (sa < ea || sb <= eb));
    let lo = sa * 8 + sb as usize;
    let hi = ea * 8 + eb as usize;
    let stop_at: usize = kani::any(); // the visitor answers `true` on its stop_at-th call (3 = never)
    kani::assume(stop_at <= 3);
    let mut pieces = [(0usize, 0usize); 3];
    let mut n = 0usize;
    let mut inside_byte_ok = true;
    let mut overflow = false;
    let r = break_bit_range(addr(sa), sb, addr(ea), eb, forwards, &mut |range| {
        if n < 3 {
            pieces[n] = piece_bits(range);
            if let BitByteRange::BitsInByte { bit_start, bit_end, .. } = range {
                inside_byte_ok = inside_byte_ok && bit_start < bit_end && bit_end <= 8;
            }
        } else {
            overflow = true;
        }
        n += 1;
        n - 1 == stop_at
    });
    assert!(!overflow && n <= 3, "C21.break_bit_range.at_most_three_pieces");
    assert!(inside_byte_ok, "C21.break_bit_range.subbyte_piece_within_byte");
    assert!(r == (stop_at < n), "C21.break_bit_range.returns_true_iff_stopped");
    assert!(stop_at >= n || n == stop_at + 1, "C21.break_bit_range.stops_at_first_true");
    if lo == hi {
        assert!(n == 0, "C21.break_bit_range.empty_range_no_visit");
    }
    if stop_at >= n {
        // complete walk: the pieces chain from lo to hi (forwards) or from hi down to lo (backwards)
        if n == 0 {
            assert!(lo == hi, "C21.break_bit_range.no_piece_only_if_empty");
        } else {
            let mut cur = if forwards { lo } else { hi };
            let mut ok = true;
            let mut i = 0;
            // unrolled by hand (n <= 3) to stay loop-free
            if i < n { let (a, b) = pieces[i]; ok = ok && a < b && (if forwards { a == cur } else { b == cur }); cur = if forwards { b } else { a }; i += 1; }
            if i < n { let (a, b) = pieces[i]; ok = ok && a < b && (if forwards { a == cur } else { b == cur }); cur = if forwards { b } else { a }; i += 1; }
            if i < n { let (a, b) = pieces[i]; ok = ok && a < b && (if forwards { a == cur } else { b == cur }); cur = if forwards { b } else { a }; i += 1; }
            assert!(ok, "C21.break_bit_range.pieces_nonempty_and_contiguous_in_order");
            assert!(cur == (if forwards { hi } else { lo }), "C21.break_bit_range.union_is_exactly_the_range");
        }
    }
    kani::cover!(n == 3 && forwards, "C21.cover.three_pieces_forwards");
    kani::cover!(n == 3 && !forwards, "C21.cover.three_pieces_backwards");
    kani::cover!(n == 1 && sa + 1 == ea && eb == 0 && sb != 0, "C21.cover.tail_of_one_byte");
    kani::cover!(r && n == 2, "C21.cover.early_stop");
}

// ------------------------------------------------------------------------------------------
// (b) the per-piece effect of zero_meta_bits / set_meta_bits on a symbolic window
// ------------------------------------------------------------------------------------------

fn bit_of(img: &[u64; 4], i: usize) -> bool {
    (img[i / 64] >> (i % 64)) & 1 == 1
}

/// zero/set of an arbitrary bit range [lo, hi) of a 32-byte window: exactly those bits become 0/1.
#[kani::proof]
#[kani::unwind(34)]
fn c21_zero_set_meta_bits() {
    let mut bytes = Bytes::<32>(kani::any());
    let old = bytes.img4(0);
    let base = addr(bytes.addr());
    let (lo, hi): (usize, usize) = (kani::any(), kani::any());
    kani::assume(lo <= hi && hi <= 255); // hi's byte must be addressable when end_bit != 0
    let set: bool = kani::any();
    if set {
        sg::set_meta_bits(base + lo / 8, (lo % 8) as u8, base + hi / 8, (hi % 8) as u8);
    } else {
        sg::zero_meta_bits(base + lo / 8, (lo % 8) as u8, base + hi / 8, (hi % 8) as u8);
    }
    let new = bytes.img4(0);
    let j: usize = kani::any();
    kani::assume(j < 256);
    if j >= lo && j < hi {
        assert!(bit_of(&new, j) == set, "C21.meta_bits.inside_range_written");
    } else {
        assert!(bit_of(&new, j) == bit_of(&old, j), "C21.meta_bits.outside_range_unchanged");
    }
    kani::cover!(lo % 8 != 0 && hi % 8 != 0 && hi / 8 > lo / 8 + 1, "C21.cover.partial_first_and_last_byte");
    kani::cover!(lo / 8 == hi / 8 && lo < hi, "C21.cover.within_one_byte");
}

// ------------------------------------------------------------------------------------------
// (d) end to end: bzero_metadata / bset_metadata / bcopy_metadata_contiguous on the real spec arithmetic
// ------------------------------------------------------------------------------------------

fn any_log_bits() -> usize {
    let lb: usize = kani::any();
    kani::assume(lb <= 6);
    lb
}

/// Data range [region k1 (+ intra-region offset), region k2 (+ offset)): the fields k1..k2 are written, the others kept.
/// For region-aligned start and size these are exactly the fields whose region lies in the range.
fn check_bulk(set: bool) {
    let mut bytes = Bytes::<32>(kani::any());
    let old = bytes.img4(0);
    let win = Window::<4>::new_at(bytes.addr(), any_log_bits(), 30);
    let (k1, k2): (usize, usize) = (kani::any(), kani::any());
    // the end address's metadata byte is computed (not accessed unless partially covered): keep it inside the window
    kani::assume(k1 <= k2 && k2 < win.n);
    let aligned: bool = kani::any();
    let start = if aligned { win.region_start(k1) } else { win.addr_in(k1) };
    let end = if aligned { win.region_start(k2) } else { win.addr_in(k2) };
    kani::assume(start <= end);
    let size = end - start;
    if set {
        win.spec.bset_metadata(start, size);
    } else {
        win.spec.bzero_metadata(start, size);
    }
    let new = bytes.img4(0);
    let j: usize = kani::any();
    kani::assume(j < win.n);
    if j >= k1 && j < k2 {
        assert!(win.field(&new, j) == if set { win.value_mask() } else { 0 }, "C21.bulk.covered_field_written");
    } else {
        assert!(win.field(&new, j) == win.field(&old, j), "C21.bulk.other_field_unchanged");
    }
    kani::cover!(aligned && k2 > k1 + 9 && win.spec.log_num_of_bits == 0, "C21.cover.bulk_1bit_multi_byte");
    kani::cover!(!aligned && k2 > k1, "C21.cover.bulk_unaligned");
    kani::cover!(win.spec.log_num_of_bits == 1 && k1 % 4 == 3 && k2 % 4 == 1 && k2 > k1 + 4, "C21.cover.bulk_2bit_partial_bytes");
}

#[kani::proof]
#[kani::unwind(34)]
#[kani::stub(mmtk::util::metadata::side_metadata::global_side_metadata_base_address, stub_base)]
fn c21_bzero_metadata() {
    check_bulk(false);
}

#[kani::proof]
#[kani::unwind(34)]
#[kani::stub(mmtk::util::metadata::side_metadata::global_side_metadata_base_address, stub_base)]
fn c21_bset_metadata() {
    check_bulk(true);
}

/// bcopy: destination spec `dst` and source spec `src` (same geometry, `src` 32 bytes above `dst` in the table
/// space): fields k1..k2 of dst become the corresponding fields of src; everything else (incl. all of src) unchanged.
#[kani::proof]
#[kani::unwind(34)]
#[kani::stub(mmtk::util::metadata::side_metadata::global_side_metadata_base_address, stub_base)]
fn c21_bcopy_metadata() {
    // one 64-byte buffer: window over the first 32 bytes (dst); the src spec's table starts 32 bytes later
    let mut both = Bytes::<64>(kani::any());
    let old_dst = both.img4(0);
    let old_src = both.img4(4);
    let lb = any_log_bits();
    let win = Window::<4>::new_at(both.addr(), lb, 30);
    let dst = win.spec;
    kani::assume(dst.offset <= (1 << 43));
    let src = SideMetadataSpec { name: "src", offset: dst.offset + 32, ..dst };
    let (k1, k2): (usize, usize) = (kani::any(), kani::any());
    kani::assume(k1 <= k2 && k2 < win.n);
    let start = win.region_start(k1);
    let size = win.region_start(k2) - start;
    dst.bcopy_metadata_contiguous(start, size, &src);
    let new_dst = both.img4(0);
    let new_src = both.img4(4);
    let j: usize = kani::any();
    kani::assume(j < win.n);
    if j >= k1 && j < k2 {
        assert!(win.field(&new_dst, j) == win.field(&old_src, j), "C21.bcopy.covered_field_is_source_field");
    } else {
        assert!(win.field(&new_dst, j) == win.field(&old_dst, j), "C21.bcopy.other_field_unchanged");
    }
    assert!(same4(&new_src, &old_src), "C21.bcopy.source_unchanged");
    kani::cover!(k2 > k1 + 9 && lb == 0 && k1 % 8 != 0 && k2 % 8 != 0, "C21.cover.bcopy_partial_bytes");
}
