//! Shared set-up for the per-object metadata harnesses (C17, C18): one object whose header lives in a symbolic
//! 32-byte buffer (object reference = word 2, so header bit offsets in [-128, 127] are inside the buffer) and whose
//! side metadata, for ONE chosen side spec, lives in a second symbolic 32-byte buffer (metadata base address stubbed,
//! see side.rs). `field`/`frame` are oracles over the raw images.
use crate::side::BASE;
use mmtk::util::metadata::side_metadata::SideMetadataSpec;
use mmtk::util::metadata::MetadataSpec;
use mmtk::util::{Address, ObjectReference};

pub struct Env {
    pub hdr: [u64; 4],
    pub side: [u64; 4],
    r0: usize,
}

#[derive(Clone, Copy)]
pub struct Snap {
    pub hdr: [u64; 4],
    pub side: [u64; 4],
}

impl Env {
    pub fn new() -> Env {
        Env { hdr: kani::any(), side: kani::any(), r0: 0 }
    }
    pub fn object(&mut self) -> ObjectReference {
        ObjectReference::from_raw_address(Address::from_mut_ptr(&mut self.hdr[2] as *mut u64)).unwrap()
    }
    /// Place the metadata window of `spec` (if it is a side spec) so that this object's field lies in `self.side`
    /// at a symbolic position.
    pub fn place(&mut self, spec: &MetadataSpec) {
        if let MetadataSpec::OnSide(s) = spec {
            self.place_side(s);
        }
    }
    pub fn place_side(&mut self, s: &SideMetadataSpec) {
        let obj = self.object().to_raw_address().as_usize();
        let side_addr = Address::from_mut_ptr(self.side.as_mut_ptr()).as_usize();
        let lb = s.log_num_of_bits;
        let r = obj >> s.log_bytes_in_region;
        let n = 256usize >> lb;
        let r0: usize = kani::any();
        kani::assume(r0 <= r && r - r0 < n && (r0 << lb) % 64 == 0);
        let m0 = (r0 << lb) / 8;
        kani::assume(s.offset + m0 <= side_addr);
        unsafe { BASE = side_addr - s.offset - m0 };
        self.r0 = r0;
    }
    pub fn snap(&self) -> Snap {
        Snap { hdr: self.hdr, side: self.side }
    }
    /// (is_side, word, shift, width) of this object's field of `spec`.
    pub fn pos(&mut self, spec: &MetadataSpec) -> (bool, usize, u32, u32) {
        match spec {
            MetadataSpec::InHeader(h) => {
                let p = (h.bit_offset + 128) as usize;
                (false, p / 64, (p % 64) as u32, h.num_of_bits as u32)
            }
            MetadataSpec::OnSide(s) => {
                let obj = self.object().to_raw_address().as_usize();
                let bit = ((obj >> s.log_bytes_in_region) - self.r0) << s.log_num_of_bits;
                (true, bit / 64, (bit % 64) as u32, 1u32 << s.log_num_of_bits)
            }
        }
    }
}

fn mask(width: u32) -> u64 {
    if width >= 64 { !0 } else { (1u64 << width) - 1 }
}

/// Value of the field at `pos` in snapshot `s`.
pub fn field(s: &Snap, pos: (bool, usize, u32, u32)) -> u64 {
    let (is_side, w, sh, width) = pos;
    let img = if is_side { &s.side } else { &s.hdr };
    (img[w] >> sh) & mask(width)
}

/// `b` equals `a` everywhere except (possibly) in the field at `pos` (and, if given, the field at `pos2`).
pub fn frame(a: &Snap, b: &Snap, pos: (bool, usize, u32, u32), pos2: Option<(bool, usize, u32, u32)>) -> bool {
    let mut ok = true;
    let mut i = 0;
    while i < 4 {
        let mut mh = 0u64;
        let mut ms = 0u64;
        let mut add = |p: (bool, usize, u32, u32)| {
            if p.1 == i {
                if p.0 {
                    ms |= mask(p.3) << p.2;
                } else {
                    mh |= mask(p.3) << p.2;
                }
            }
        };
        add(pos);
        if let Some(p2) = pos2 {
            add(p2);
        }
        ok = ok && (a.hdr[i] & !mh) == (b.hdr[i] & !mh) && (a.side[i] & !ms) == (b.side[i] & !ms);
        i += 1;
    }
    ok
}

pub fn same(a: &Snap, b: &Snap) -> bool {
    // element-wise: `[u64; 4] == [u64; 4]` compiles to a byte-wise memcmp loop
    a.hdr[0] == b.hdr[0] && a.hdr[1] == b.hdr[1] && a.hdr[2] == b.hdr[2] && a.hdr[3] == b.hdr[3]
        && a.side[0] == b.side[0] && a.side[1] == b.side[1] && a.side[2] == b.side[2] && a.side[3] == b.side[3]
}
