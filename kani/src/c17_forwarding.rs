//! C17 — forwarding protocol steps as sequential state transformers (non-overlapping schedules only).
//!
//! For each metadata placement (LAYOUT 0: forwarding bits on the side, pointer in header word 0; 1: forwarding bits are
//! the two low bits of the forwarding-pointer word; 2: forwarding bits in the header byte below the reference), with all
//! surrounding header/side bits symbolic and a symbolic side-table position:
//!   * attempt_to_forward returns the previous forwarding bits and moves 00 -> BEING_FORWARDED, touching nothing else;
//!     any later tracer gets 10 or 11, never 00, and changes nothing => for any sequential order exactly one tracer copies;
//!   * forward_object (with ObjectModel::copy returning a symbolic new reference) leaves bits == FORWARDED and every
//!     reader (read_forwarding_pointer, spin_and_get_forwarded_object with stale bits 10 or 11) obtains exactly the
//!     winner's reference; with bits 00 a tracer gets the unmoved object;
//!   * clear_forwarding_bits resets only the bits.
//! Atomicity of each step and overlapping interleavings are outside this family (assumed).
use crate::obj::*;
use crate::side::stub_base;
use crate::vm::*;
use mmtk::util::copy::{CopySemantics, GCWorkerCopyContext};
use mmtk::util::metadata::MetadataSpec;
use mmtk::verif_hooks::object_forwarding as of;
use mmtk::vm::{ObjectModel, VMBinding};

const PTR_MASK: u64 = 0x00ff_ffff_ffff_fff8;
const BEING_FORWARDED: u64 = 0b10;
const FORWARDED: u64 = 0b11;

/// Step 1: claiming. Two tracers in sequence on an arbitrary initial state.
fn check_claim<VM: VMBinding>() {
    let bits_spec: MetadataSpec = *VM::VMObjectModel::LOCAL_FORWARDING_BITS_SPEC.as_spec();
    let mut env = Env::new();
    env.place(&bits_spec);
    let obj = env.object();
    let pb = env.pos(&bits_spec);
    let s0 = env.snap();
    let b0 = field(&s0, pb);
    let r1 = of::attempt_to_forward::<VM>(obj) as u64;
    let s1 = env.snap();
    assert!(r1 == b0, "C17.attempt_to_forward.returns_previous_bits");
    assert!(of::get_forwarding_status::<VM>(obj) as u64 == field(&s1, pb), "C17.get_forwarding_status.reads_the_bits");
    if b0 == 0 {
        assert!(field(&s1, pb) == BEING_FORWARDED, "C17.attempt_to_forward.winner_sets_being_forwarded");
        assert!(frame(&s0, &s1, pb, None), "C17.attempt_to_forward.touches_only_the_forwarding_bits");
    } else {
        assert!(same(&s0, &s1), "C17.attempt_to_forward.loser_changes_nothing");
    }
    let r2 = of::attempt_to_forward::<VM>(obj) as u64;
    assert!(r2 != 0 && r2 == field(&s1, pb), "C17.attempt_to_forward.second_tracer_never_wins");
    assert!(same(&s1, &env.snap()), "C17.attempt_to_forward.second_tracer_changes_nothing");
    assert!(of::is_forwarded_or_being_forwarded::<VM>(obj), "C17.is_forwarded_or_being_forwarded.after_attempt");
    // a tracer that saw 00 gets the unmoved object
    assert!(of::spin_and_get_forwarded_object::<VM>(obj, 0) == obj, "C17.spin_and_get.not_forwarded_returns_the_object");
    kani::cover!(b0 == 0, "C17.cover.winner_path");
    kani::cover!(b0 == FORWARDED, "C17.cover.already_forwarded_path");
    kani::cover!(b0 == BEING_FORWARDED, "C17.cover.being_forwarded_path");
}

/// Step 2: the winner copies (state BEING_FORWARDED, as left by step 1) and every reader agrees.
fn check_copy<VM: VMBinding>(bits_in_pointer_word: bool) {
    let bits_spec: MetadataSpec = *VM::VMObjectModel::LOCAL_FORWARDING_BITS_SPEC.as_spec();
    let mut env = Env::new();
    env.place(&bits_spec);
    let obj = env.object();
    let pb = env.pos(&bits_spec);
    let pp = (false, 2usize, 0u32, 64u32); // the forwarding pointer word is header word 0
    let s1 = env.snap();
    kani::assume(field(&s1, pb) == BEING_FORWARDED);
    let new_ref: usize = kani::any();
    kani::assume(new_ref != 0 && (new_ref as u64) & !PTR_MASK == 0);
    ctl::set_copy_result(new_ref);
    let calls0 = ctl::copy_calls();
    let mut ctx = GCWorkerCopyContext::<VM>::new_non_copy();
    let mut seen = 0usize;
    let r = of::forward_object::<VM>(obj, CopySemantics::DefaultCopy, &mut ctx, |o| seen = o.to_raw_address().as_usize());
    std::mem::forget(ctx);
    let s3 = env.snap();
    assert!(r.to_raw_address().as_usize() == new_ref && seen == new_ref, "C17.forward_object.returns_the_copy");
    assert!(ctl::copy_calls() == calls0 + 1, "C17.forward_object.copies_exactly_once");
    assert!(field(&s3, pb) == FORWARDED, "C17.forward_object.leaves_forwarded_state");
    assert!(frame(&s1, &s3, pb, Some(pp)), "C17.forward_object.touches_only_forwarding_bits_and_pointer_word");
    if !bits_in_pointer_word {
        assert!(s3.hdr[2] & !PTR_MASK == s1.hdr[2] & !PTR_MASK, "C17.write_forwarding_pointer.keeps_bits_outside_the_pointer_mask");
    }
    assert!(of::is_forwarded::<VM>(obj), "C17.is_forwarded.after_forward_object");
    // the pointer word now holds exactly the winner's reference under the mask: what every reader returns (check_read
    // proves that readers return the masked pointer word of a FORWARDED object and write nothing)
    assert!((s3.hdr[2] & PTR_MASK) as usize == new_ref, "C17.forward_object.stores_the_winners_reference_in_the_pointer_word");
}

/// Step 2b: after the copy, a late tracer sees FORWARDED and changes nothing; clearing resets only the bits.
fn check_after_copy<VM: VMBinding>() {
    let bits_spec: MetadataSpec = *VM::VMObjectModel::LOCAL_FORWARDING_BITS_SPEC.as_spec();
    let mut env = Env::new();
    env.place(&bits_spec);
    let obj = env.object();
    let pb = env.pos(&bits_spec);
    let s3 = env.snap();
    kani::assume(field(&s3, pb) == FORWARDED);
    assert!(of::attempt_to_forward::<VM>(obj) as u64 == FORWARDED, "C17.attempt_to_forward.late_tracer_sees_forwarded");
    assert!(same(&s3, &env.snap()), "C17.late_tracer_changes_nothing");
    of::clear_forwarding_bits::<VM>(obj);
    let s4 = env.snap();
    assert!(field(&s4, pb) == 0 && frame(&s3, &s4, pb, None), "C17.clear_forwarding_bits.resets_only_the_bits");
}

/// Step 3: an object forwarded by an earlier winner: readers return the stored pointer (masked), whatever the
/// other header bits are.
fn check_read<VM: VMBinding>() {
    let bits_spec: MetadataSpec = *VM::VMObjectModel::LOCAL_FORWARDING_BITS_SPEC.as_spec();
    let mut env = Env::new();
    env.place(&bits_spec);
    let obj = env.object();
    let pb = env.pos(&bits_spec);
    let s0 = env.snap();
    kani::assume(field(&s0, pb) == FORWARDED);
    let want = (s0.hdr[2] & PTR_MASK) as usize;
    kani::assume(want != 0);
    assert!(of::read_forwarding_pointer::<VM>(obj).to_raw_address().as_usize() == want, "C17.read_forwarding_pointer.returns_masked_pointer_word");
    assert!(of::spin_and_get_forwarded_object::<VM>(obj, FORWARDED as u8).to_raw_address().as_usize() == want, "C17.spin_and_get.returns_masked_pointer_word");
    assert!(of::spin_and_get_forwarded_object::<VM>(obj, BEING_FORWARDED as u8).to_raw_address().as_usize() == want, "C17.spin_and_get.stale_bits_return_masked_pointer_word");
    assert!(same(&s0, &env.snap()), "C17.readers_change_nothing");
}

macro_rules! c17 {
    ($name:ident, $f:ident, $vm:ty $(, $arg:expr)*) => {
        #[kani::proof]
        #[kani::unwind(6)]
        #[kani::stub(mmtk::util::metadata::side_metadata::global_side_metadata_base_address, stub_base)]
        fn $name() {
            $f::<$vm>($($arg),*);
        }
    };
}
type F0 = KVM<8, 64, 0>;
type F1 = KVM<8, 64, 1>;
type F2 = KVM<8, 64, 2>;
type F3 = KVM<8, 64, 3>;
c17!(c17_claim_bits_on_side, check_claim, F0);
c17!(c17_claim_bits_in_pointer_word, check_claim, F1);
c17!(c17_claim_bits_in_low_header_byte, check_claim, F2);
c17!(c17_copy_bits_on_side, check_copy, F0, false);
c17!(c17_copy_bits_in_pointer_word, check_copy, F1, true);
c17!(c17_copy_bits_in_low_header_byte, check_copy, F2, false);
c17!(c17_after_copy_bits_on_side, check_after_copy, F0);
c17!(c17_after_copy_bits_in_pointer_word, check_after_copy, F1);
c17!(c17_after_copy_bits_in_low_header_byte, check_after_copy, F2);
c17!(c17_read_bits_on_side, check_read, F0);
c17!(c17_read_bits_in_pointer_word, check_read, F1);
c17!(c17_read_bits_in_low_header_byte, check_read, F2);
// forwarding bits in the top byte of the pointer word (the case the pointer mask's 0x00ff.. exists for)
c17!(c17_claim_bits_in_pointer_top_byte, check_claim, F3);
c17!(c17_copy_bits_in_pointer_top_byte, check_copy, F3, true);
c17!(c17_after_copy_bits_in_pointer_top_byte, check_after_copy, F3);
c17!(c17_read_bits_in_pointer_top_byte, check_read, F3);

/// attempt_to_forward against the interference contract of the metadata CAS (see interference.rs): whatever finitely
/// many spurious CAS failures occur, a tracer is told "not forwarded yet, you copy" (return value 00) only if this very
/// call moved the bits 00 -> BEING_FORWARDED; otherwise it reports the non-zero state it saw and changes nothing.
fn check_attempt_under_interference<VM: VMBinding>() {
    use crate::interference::*;
    let bits_spec: MetadataSpec = *VM::VMObjectModel::LOCAL_FORWARDING_BITS_SPEC.as_spec();
    let mut env = Env::new();
    env.place(&bits_spec);
    let obj = env.object();
    let pb = env.pos(&bits_spec);
    let s0 = env.snap();
    let b0 = field(&s0, pb);
    unsafe {
        SPURIOUS_BUDGET = 2;
        SPURIOUS_SEEN = 0;
    }
    let r = of::attempt_to_forward::<VM>(obj) as u64;
    let s1 = env.snap();
    if r == 0 {
        assert!(b0 == 0 && field(&s1, pb) == BEING_FORWARDED, "C17.attempt_to_forward.reports_not_forwarded_only_after_claiming_the_object");
    } else {
        assert!(r == b0 && same(&s0, &s1), "C17.attempt_to_forward.loser_reports_the_state_it_saw");
    }
    assert!(frame(&s0, &s1, pb, None), "C17.attempt_to_forward.touches_only_the_forwarding_bits");
    kani::cover!(r == 0 && unsafe { SPURIOUS_SEEN } == 2, "C17.cover.claimed_after_two_interferences");
}

macro_rules! c17i {
    ($name:ident, $vm:ty) => {
        #[kani::proof]
        #[kani::unwind(6)]
        #[kani::stub(mmtk::util::metadata::side_metadata::global_side_metadata_base_address, stub_base)]
        #[kani::stub(mmtk::util::metadata::MetadataSpec::compare_exchange_metadata, crate::interference::cas_contract)]
        fn $name() {
            check_attempt_under_interference::<$vm>();
        }
    };
}
c17i!(c17_attempt_under_interference_side, KVM<8, 64, 0>);
c17i!(c17_attempt_under_interference_header, KVM<8, 64, 2>);
