//! C17 — forwarding protocol steps as sequential state transformers (non-overlapping schedules only).
//!
//! For each metadata placement (LAYOUT 0: forwarding bits on the side, pointer in header word 0; 1: forwarding bits are
//! the two low bits of the forwarding-pointer word; 2: forwarding bits in the header byte below the reference), with all
//! surrounding header/side bits symbolic and a symbolic side-table position:
//!   * attempt_to_forward returns the previous forwarding bits and moves 00 -> BEING_FORWARDED, touching nothing else;
//!     any later tracer gets 10 or 11, never 00, and changes nothing => for any sequential order exactly one tracer copies;
//!   * forward_object (with ObjectModel::copy returning a symbolic new reference) leaves bits == FORWARDED and every
//!     reader (read_forwarding_pointer, spin_and_get_forwarded_object with stale bits 10 or 11) obtains exactly the
//!     winner's reference; with bits 00 a tracer gets the unmoved object;
//!   * clear_forwarding_bits resets only the bits.
//! Atomicity of each step and overlapping interleavings are outside this family (assumed).
use crate::obj::*;
use crate::side::stub_base;
use crate::vm::*;
use mmtk::util::copy::{CopySemantics, GCWorkerCopyContext};
use mmtk::util::metadata::MetadataSpec;
use mmtk::verif_hooks::object_forwarding as of;
use mmtk::vm::{ObjectModel, VMBinding};

const PTR_MASK: u64 = 0x00ff_ffff_ffff_fff8;
const BEING_FORWARDED: u64 = 0b10;
const FORWARDED: u64 = 0b11;

fn check_protocol<VM: VMBinding>(bits_in_pointer_word: bool) {
    let bits_spec: MetadataSpec = *VM::VMObjectModel::LOCAL_FORWARDING_BITS_SPEC.as_spec();
    let mut env = Env::new();
    env.place(&bits_spec);
    let obj = env.object();
    let pb = env.pos(&bits_spec);
    let pp = (false, 2usize, 0u32, 64u32); // the forwarding pointer word is header word 0
    let s0 = env.snap();
    let b0 = field(&s0, pb);

    // tracer 1
    let r1 = of::attempt_to_forward::<VM>(obj) as u64;
    let s1 = env.snap();
    assert!(r1 == b0, "C17.attempt_to_forward.returns_previous_bits");
    assert!(of::get_forwarding_status::<VM>(obj) as u64 == field(&s1, pb), "C17.get_forwarding_status.reads_the_bits");
    if b0 == 0 {
        assert!(field(&s1, pb) == BEING_FORWARDED, "C17.attempt_to_forward.winner_sets_being_forwarded");
        assert!(frame(&s0, &s1, pb, None), "C17.attempt_to_forward.touches_only_the_forwarding_bits");
    } else {
        assert!(same(&s0, &s1), "C17.attempt_to_forward.loser_changes_nothing");
    }
    // tracer 2 (after tracer 1's step)
    let r2 = of::attempt_to_forward::<VM>(obj) as u64;
    assert!(r2 != 0 && r2 == field(&s1, pb), "C17.attempt_to_forward.second_tracer_never_wins");
    assert!(same(&s1, &env.snap()), "C17.attempt_to_forward.second_tracer_changes_nothing");
    assert!(of::is_forwarded_or_being_forwarded::<VM>(obj), "C17.is_forwarded_or_being_forwarded.after_attempt");

    if b0 == 0 {
        // the winner copies
        let new_ref: usize = kani::any();
        kani::assume(new_ref != 0 && (new_ref as u64) & !PTR_MASK == 0);
        ctl::set_copy_result(new_ref);
        let calls0 = ctl::copy_calls();
        let mut ctx = GCWorkerCopyContext::<VM>::new_non_copy();
        let mut seen = 0usize;
        let r = of::forward_object::<VM>(obj, CopySemantics::DefaultCopy, &mut ctx, |o| seen = o.to_raw_address().as_usize());
        std::mem::forget(ctx);
        let s3 = env.snap();
        assert!(r.to_raw_address().as_usize() == new_ref && seen == new_ref, "C17.forward_object.returns_the_copy");
        assert!(ctl::copy_calls() == calls0 + 1, "C17.forward_object.copies_exactly_once");
        assert!(field(&s3, pb) == FORWARDED, "C17.forward_object.leaves_forwarded_state");
        assert!(frame(&s1, &s3, pb, Some(pp)), "C17.forward_object.touches_only_forwarding_bits_and_pointer_word");
        if !bits_in_pointer_word {
            assert!(s3.hdr[2] & !PTR_MASK == s1.hdr[2] & !PTR_MASK, "C17.write_forwarding_pointer.keeps_bits_outside_the_pointer_mask");
        }
        assert!(of::is_forwarded::<VM>(obj), "C17.is_forwarded.after_forward_object");
        // every reader obtains the winner's reference
        assert!(of::read_forwarding_pointer::<VM>(obj).to_raw_address().as_usize() == new_ref, "C17.read_forwarding_pointer.returns_winners_reference");
        assert!(of::spin_and_get_forwarded_object::<VM>(obj, BEING_FORWARDED as u8).to_raw_address().as_usize() == new_ref, "C17.spin_and_get.stale_being_forwarded_gets_winners_reference");
        assert!(of::spin_and_get_forwarded_object::<VM>(obj, FORWARDED as u8).to_raw_address().as_usize() == new_ref, "C17.spin_and_get.forwarded_gets_winners_reference");
        // a late tracer sees FORWARDED and does not copy
        assert!(of::attempt_to_forward::<VM>(obj) as u64 == FORWARDED && same(&s3, &env.snap()), "C17.attempt_to_forward.late_tracer_sees_forwarded");
        // readers do not write
        assert!(same(&s3, &env.snap()), "C17.readers_change_nothing");
        // clearing resets only the bits
        of::clear_forwarding_bits::<VM>(obj);
        let s4 = env.snap();
        assert!(field(&s4, pb) == 0 && frame(&s3, &s4, pb, None), "C17.clear_forwarding_bits.resets_only_the_bits");
    } else if b0 == FORWARDED {
        // forwarded by an earlier winner: readers return the stored pointer (masked), whatever the other header bits are
        let want = (s0.hdr[2] & PTR_MASK) as usize;
        if want != 0 {
            assert!(of::read_forwarding_pointer::<VM>(obj).to_raw_address().as_usize() == want, "C17.read_forwarding_pointer.returns_masked_pointer_word");
            assert!(of::spin_and_get_forwarded_object::<VM>(obj, FORWARDED as u8).to_raw_address().as_usize() == want, "C17.spin_and_get.returns_masked_pointer_word");
        }
    }
    // a tracer that saw 00 (winner declined to move / not in a copying cycle) gets the unmoved object
    assert!(of::spin_and_get_forwarded_object::<VM>(obj, 0) == obj, "C17.spin_and_get.not_forwarded_returns_the_object");
    kani::cover!(b0 == 0, "C17.cover.winner_path");
    kani::cover!(b0 == FORWARDED, "C17.cover.already_forwarded_path");
    kani::cover!(b0 == BEING_FORWARDED, "C17.cover.being_forwarded_path");
}

macro_rules! c17 {
    ($name:ident, $vm:ty, $inword:expr) => {
        #[kani::proof]
        #[kani::unwind(6)]
        #[kani::stub(mmtk::util::metadata::side_metadata::global_side_metadata_base_address, stub_base)]
        fn $name() {
            check_protocol::<$vm>($inword);
        }
    };
}
c17!(c17_protocol_bits_on_side, KVM<8, 64, 0>, false);
c17!(c17_protocol_bits_in_pointer_word, KVM<8, 64, 1>, true);
c17!(c17_protocol_bits_in_low_header_byte, KVM<8, 64, 2>, false);

/// attempt_to_forward against the interference contract of the metadata CAS (see interference.rs): whatever finitely
/// many spurious CAS failures occur, a tracer is told "not forwarded yet, you copy" (return value 00) only if this very
/// call moved the bits 00 -> BEING_FORWARDED; otherwise it reports the non-zero state it saw and changes nothing.
fn check_attempt_under_interference<VM: VMBinding>() {
    use crate::interference::*;
    let bits_spec: MetadataSpec = *VM::VMObjectModel::LOCAL_FORWARDING_BITS_SPEC.as_spec();
    let mut env = Env::new();
    env.place(&bits_spec);
    let obj = env.object();
    let pb = env.pos(&bits_spec);
    let s0 = env.snap();
    let b0 = field(&s0, pb);
    unsafe {
        SPURIOUS_BUDGET = 2;
        SPURIOUS_SEEN = 0;
    }
    let r = of::attempt_to_forward::<VM>(obj) as u64;
    let s1 = env.snap();
    if r == 0 {
        assert!(b0 == 0 && field(&s1, pb) == BEING_FORWARDED, "C17.attempt_to_forward.reports_not_forwarded_only_after_claiming_the_object");
    } else {
        assert!(r == b0 && same(&s0, &s1), "C17.attempt_to_forward.loser_reports_the_state_it_saw");
    }
    assert!(frame(&s0, &s1, pb, None), "C17.attempt_to_forward.touches_only_the_forwarding_bits");
    kani::cover!(r == 0 && unsafe { SPURIOUS_SEEN } == 2, "C17.cover.claimed_after_two_interferences");
}

macro_rules! c17i {
    ($name:ident, $vm:ty) => {
        #[kani::proof]
        #[kani::unwind(6)]
        #[kani::stub(mmtk::util::metadata::side_metadata::global_side_metadata_base_address, stub_base)]
        #[kani::stub(mmtk::util::metadata::MetadataSpec::compare_exchange_metadata, crate::interference::cas_contract)]
        fn $name() {
            check_attempt_under_interference::<$vm>();
        }
    };
}
c17i!(c17_attempt_under_interference_side, KVM<8, 64, 0>);
c17i!(c17_attempt_under_interference_header, KVM<8, 64, 2>);
