//! Harness-controlled `VMLayout` (replaces the `vm_layout()` singleton via `kani::stub`).
use mmtk::util::heap::vm_layout::VMLayout;
use mmtk::util::Address;
use std::ptr::addr_of;

pub static mut LAYOUT: VMLayout = VMLayout {
    log_address_space: 47,
    heap_start: Address::ZERO,
    heap_end: Address::ZERO,
    log_space_extent: 41,
    force_use_contiguous_spaces: true,
};

/// Replacement for `mmtk::util::heap::layout::vm_layout::vm_layout`.
pub fn stub_vm_layout() -> &'static VMLayout {
    unsafe { &*addr_of!(LAYOUT) }
}

pub fn set_layout(l: VMLayout) {
    unsafe { LAYOUT = l };
}

const LOG_MAX_SPACES: usize = 4;
const BYTES_IN_CHUNK: usize = 1 << 22;

/// A symbolic layout satisfying exactly the conditions of `VMLayout::validate`.
pub fn any_valid_layout(force_contiguous: bool) -> VMLayout {
    let l = VMLayout {
        log_address_space: kani::any(),
        heap_start: kani::any(),
        heap_end: kani::any(),
        log_space_extent: kani::any(),
        force_use_contiguous_spaces: force_contiguous,
    };
    kani::assume(l.heap_start.as_usize() % BYTES_IN_CHUNK == 0);
    kani::assume(l.heap_end.as_usize() % BYTES_IN_CHUNK == 0);
    kani::assume(l.heap_start < l.heap_end);
    kani::assume(l.log_address_space <= 47);
    // the heap lies inside the architectural address space (not checked by validate(); every real layout satisfies it)
    kani::assume(l.heap_end.as_usize() <= (1usize << 47));
    kani::assume(l.log_space_extent <= l.log_address_space);
    if force_contiguous {
        kani::assume(l.log_address_space >= LOG_MAX_SPACES);
        kani::assume(l.log_space_extent <= l.log_address_space - LOG_MAX_SPACES);
        kani::assume(l.heap_start.as_usize() & ((1usize << l.log_space_extent) - 1) == 0);
    }
    l
}
