//! C40 — the revisitable group-by partitions its input into maximal runs.
//!
//! The real `RevisitableGroupBy::next` / `RevisitableGroup::next` are driven over a slice of symbolic bytes of
//! symbolic length (0..=N, N = 5 in the quick tier, 7 in the thorough tier) with the key function `x & m` (symbolic mask `m`: from "all equal" to "all distinct"),
//! and over two flattened slices. Bounded by the input length N (labelled bounded).
use mmtk::verif_hooks::rev_group as rg;


struct Obs<const N: usize> {
    keys: [u8; N],
    lens: [usize; N],
    groups: usize,
    items: [u8; N],
    item_group: [usize; N],
    n_items: usize,
    overflow: bool,
}

fn check<const N: usize>(data: &[u8; N], n: usize, m: u8, o: &Obs<N>) {
    assert!(!o.overflow, "C40.no_more_groups_or_items_than_input");
    // the groups concatenate to the input
    assert!(o.n_items == n, "C40.concatenation_has_the_input_length");
    if n == 0 {
        assert!(o.groups == 0, "C40.empty_input_yields_no_group");
        return;
    }
    assert!(o.groups >= 1, "C40.non_empty_input_yields_a_group");
    let i: usize = kani::any();
    kani::assume(i < n);
    assert!(o.items[i] == data[i], "C40.concatenation_equals_input");
    // every item carries the key reported for its group
    let g = o.item_group[i];
    assert!(g < o.groups, "C40.item_belongs_to_a_reported_group");
    assert!(data[i] & m == o.keys[g], "C40.items_share_the_reported_key");
    // reported length == number of items yielded by the group, and groups are non-empty
    let h: usize = kani::any();
    kani::assume(h < o.groups);
    assert!(o.lens[h] >= 1, "C40.groups_are_non_empty");
    let mut cnt = 0;
    let mut k = 0;
    while k < N {
        if k < n && o.item_group[k] == h {
            cnt += 1;
        }
        k += 1;
    }
    assert!(cnt == o.lens[h], "C40.reported_length_equals_item_count");
    // adjacent groups have different keys (runs are maximal)
    if h + 1 < o.groups {
        assert!(o.keys[h] != o.keys[h + 1], "C40.adjacent_groups_have_different_keys");
    }
}

fn new_obs<const N: usize>() -> Obs<N> {
    Obs { keys: [0; N], lens: [0; N], groups: 0, items: [0; N], item_group: [0; N], n_items: 0, overflow: false }
}

#[kani::proof]
#[kani::unwind(8)]
fn c40_group_by_slice() {
    group_by_slice::<5>();
}
#[kani::proof]
#[kani::unwind(10)]
fn c40_group_by_slice_deep() {
    group_by_slice::<7>();
}
fn group_by_slice<const N: usize>() {
    let data: [u8; N] = kani::any();
    let n: usize = kani::any();
    kani::assume(n <= N);
    let m: u8 = kani::any();
    let mut o = new_obs::<N>();
    {
        let o1 = core::cell::RefCell::new(&mut o);
        rg::group_by_slice(
            &data[..n],
            |x| **x & m,
            |key, len| {
                let mut o = o1.borrow_mut();
                if o.groups < N {
                    let g = o.groups;
                    o.keys[g] = key;
                    o.lens[g] = len;
                    o.groups += 1;
                } else {
                    o.overflow = true;
                }
            },
            |x| {
                let mut o = o1.borrow_mut();
                if o.n_items < N && o.groups >= 1 {
                    let i = o.n_items;
                    o.items[i] = x;
                    o.item_group[i] = o.groups - 1;
                    o.n_items += 1;
                } else {
                    o.overflow = true;
                }
            },
        );
    }
    check(&data, n, m, &o);
    kani::cover!(o.groups == N, "C40.cover.all_singleton_groups");
    kani::cover!(o.groups == 1 && n == N, "C40.cover.single_run");
    kani::cover!(o.groups == 3 && o.lens[1] == 2, "C40.cover.three_groups");
    kani::cover!(n == 0, "C40.cover.empty");
}

/// Groups across the boundary of two flattened slices (the mmapper's use: slabs of chunk states).
#[kani::proof]
#[kani::unwind(6)]
fn c40_group_by_flattened_n3_exp() {
    group_by_flattened::<3>();
}
#[kani::proof]
#[kani::unwind(10)]
fn c40_group_by_flattened_n7_exp() {
    group_by_flattened::<7>();
}
fn group_by_flattened<const N: usize>() {
    let data: [u8; N] = kani::any();
    let n: usize = kani::any();
    kani::assume(n <= N);
    let cut: usize = kani::any();
    kani::assume(cut <= n);
    let m: u8 = kani::any();
    let mut o = new_obs::<N>();
    {
        let o1 = core::cell::RefCell::new(&mut o);
        let parts: [&[u8]; 2] = [&data[..cut], &data[cut..n]];
        rg::group_by_flattened_slices(
            &parts,
            |x| *x & m,
            |key, len| {
                let mut o = o1.borrow_mut();
                if o.groups < N {
                    let g = o.groups;
                    o.keys[g] = key;
                    o.lens[g] = len;
                    o.groups += 1;
                } else {
                    o.overflow = true;
                }
            },
            |x| {
                let mut o = o1.borrow_mut();
                if o.n_items < N && o.groups >= 1 {
                    let i = o.n_items;
                    o.items[i] = x;
                    o.item_group[i] = o.groups - 1;
                    o.n_items += 1;
                } else {
                    o.overflow = true;
                }
            },
        );
    }
    check(&data, n, m, &o);
    kani::cover!(o.groups == 1 && cut == 1 && n == N, "C40.cover.run_spans_the_slice_boundary");
    kani::cover!(o.groups == 2 && cut == 1, "C40.cover.two_groups_across_slices");
    kani::cover!(cut == 0 && n > 0, "C40.cover.empty_first_slice");
}

/// An underlying iterator with an INEXACT size hint (`Filter`: lower bound 0, finite upper bound while items remain): the
/// group-by must partition the filtered sequence exactly as it partitions a slice.
#[kani::proof]
#[kani::unwind(6)]
fn c40_group_by_filtered() {
    group_by_filtered::<3>();
}
/// EXPERIMENT (not part of the check): 5 items do not finish within 25 minutes.
#[kani::proof]
#[kani::unwind(8)]
fn c40_group_by_filtered_n5_exp() {
    group_by_filtered::<5>();
}
fn group_by_filtered<const N: usize>() {
    let raw: [u8; N] = kani::any();
    let m: u8 = kani::any();
    let f: u8 = kani::any(); // items with (x & f) == 0 are filtered out
    // the expected input of the group-by: the kept items, in order
    let mut data = [0u8; N];
    let mut n = 0;
    let mut k = 0;
    while k < N {
        if raw[k] & f != 0 {
            data[n] = raw[k];
            n += 1;
        }
        k += 1;
    }
    let mut o = new_obs::<N>();
    {
        let o1 = core::cell::RefCell::new(&mut o);
        rg::group_by_iter(
            raw.iter().copied().filter(|x| *x & f != 0),
            |x| *x & m,
            |key, len| {
                let mut o = o1.borrow_mut();
                if o.groups < N {
                    let g = o.groups;
                    o.keys[g] = key;
                    o.lens[g] = len;
                    o.groups += 1;
                } else {
                    o.overflow = true;
                }
            },
            |x| {
                let mut o = o1.borrow_mut();
                if o.n_items < N && o.groups >= 1 {
                    let i = o.n_items;
                    o.items[i] = x;
                    o.item_group[i] = o.groups - 1;
                    o.n_items += 1;
                } else {
                    o.overflow = true;
                }
            },
        );
    }
    check(&data, n, m, &o);
    kani::cover!(o.groups == 2 && n == N - 1, "C40.cover.filtered_two_groups_one_item_dropped");
    kani::cover!(n == 0 && f != 0, "C40.cover.everything_filtered_out");
    kani::cover!(o.groups == 1 && n == N, "C40.cover.nothing_filtered_single_run");
}
