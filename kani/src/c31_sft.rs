//! C31 — address-to-space resolution is total and exact (index arithmetic of the 64-bit SFT space map and of Map64).
//!
//! What is under contract here is the arithmetic that decides *which table slot* an address resolves to, for every
//! address 0..=usize::MAX: the slot index is always inside the table (so the `get_unchecked` in `SFTSpaceMap` is in
//! bounds), `has_sft_entry` is exactly "inside spaces 1..MAX_SPACES-1", an address inside space i resolves to slot i in
//! the SFT map and in the VM map (Map64), and no lookup panics. Table *contents* are whole-system and not claimed.
use crate::layout::*;
use mmtk::verif_hooks::SFTMap;
use mmtk::util::heap::vm_layout::VMLayout;
use mmtk::util::Address;
use mmtk::verif_hooks::map64 as m64;
use mmtk::verif_hooks::sft_space_map as sm;
use mmtk::verif_hooks::VMMap;

const MAX_SPACES: usize = 16;

fn addr(x: usize) -> Address {
    unsafe { Address::from_usize(x) }
}

fn check_index_arithmetic(l: &VMLayout) {
    let lse = l.log_space_extent;
    let a: usize = kani::any();
    // table size as computed by SFTSpaceMap::new()
    let table_size = sm::addr_to_index(Address::MAX) + 1;
    let idx = sm::addr_to_index(addr(a));
    assert!(idx < table_size, "C31.space_map.index_inside_table_for_every_address");
    assert!(table_size >= MAX_SPACES, "C31.space_map.table_covers_all_spaces");
    // an address inside space i (1 <= i < 32) resolves to slot i
    let i: usize = kani::any();
    kani::assume(i >= 1 && i < table_size);
    let (s, e) = sm::index_to_space_range(i);
    assert!(s.as_usize() == i << lse && e.as_usize() - s.as_usize() == 1usize << lse, "C31.space_map.space_range_is_ith_extent");
    if a >= s.as_usize() && a < e.as_usize() {
        assert!(idx == i, "C31.space_map.address_in_space_i_resolves_to_slot_i");
    }
    kani::cover!(a == usize::MAX, "C31.cover.max_address");
    kani::cover!(a == 0, "C31.cover.zero_address");
    kani::cover!(idx == 31, "C31.cover.last_slot");
}

/// Any valid contiguous (64-bit style) layout.
#[kani::proof]
#[kani::stub(mmtk::util::heap::layout::vm_layout::vm_layout, stub_vm_layout)]
fn c31_space_map_index_any_layout() {
    let l = any_valid_layout(true);
    set_layout(l);
    check_index_arithmetic(stub_vm_layout());
}

/// The real default 64-bit layout, the real `SFTSpaceMap::new()` and its `has_sft_entry`.
#[kani::proof]
#[kani::unwind(70)]
fn c31_space_map_default_layout() {
    let l = VMLayout::new_64bit();
    let map = sm::SFTSpaceMap::new();
    assert!(sm::table_len(&map) >= MAX_SPACES, "C31.space_map.table_covers_all_spaces");
    let a: usize = kani::any();
    let idx = sm::addr_to_index(addr(a));
    assert!(idx < sm::table_len(&map), "C31.space_map.index_inside_real_table");
    let lse = l.log_space_extent;
    let inside = a >= (1usize << lse) && a < ((MAX_SPACES - 1 + 1) << lse);
    assert!(map.has_sft_entry(addr(a)) == inside, "C31.space_map.has_entry_iff_inside_spaces_1_to_15");
    if map.has_sft_entry(addr(a)) {
        assert!(idx >= 1 && idx < MAX_SPACES, "C31.space_map.entry_slot_is_a_space_slot");
        // the VM map agrees on the space index
        assert!(m64::space_index(addr(a)) == Some(idx), "C31.map64.agrees_with_sft_space_index");
    }
    // heap edges
    assert!(!map.has_sft_entry(addr(l.heap_start.as_usize() - 1)), "C31.space_map.just_below_heap_has_no_entry");
    assert!(map.has_sft_entry(l.heap_start), "C31.space_map.heap_start_has_entry");
    kani::cover!(inside && idx == 15, "C31.cover.last_space");
    kani::cover!(a > l.heap_end.as_usize(), "C31.cover.above_heap");
}

/// `Map64::get_descriptor_for_address` is total: for every address the space index it computes is either None or a
/// valid index of its descriptor table (no out-of-bounds panic), under the default layout and the real `Map64::new()`.
#[kani::proof]
#[kani::unwind(18)]
fn c31_map64_descriptor_lookup_total() {
    let map = m64::Map64::new();
    let a: usize = kani::any();
    match m64::space_index(addr(a)) {
        None => {}
        Some(i) => assert!(i < m64::descriptor_map_len(&map), "C31.map64.space_index_inside_descriptor_table"),
    }
    let d = map.get_descriptor_for_address(addr(a));
    // nothing has been inserted: every address resolves to the uninitialised descriptor
    assert!(d.is_empty(), "C31.map64.fresh_map_resolves_to_empty_descriptor");
    kani::cover!(a == usize::MAX, "C31.cover.map64_max_address");
}

/// Any valid contiguous layout: `is_space_start` holds exactly for multiples of the space extent whose index fits
/// in LOG_MAX_SPACES bits, and `space_index` of an address inside the heap is its extent number.
#[kani::proof]
#[kani::stub(mmtk::util::heap::layout::vm_layout::vm_layout, stub_vm_layout)]
fn c31_map64_index_any_layout() {
    let l = any_valid_layout(true);
    set_layout(l);
    let l = stub_vm_layout();
    let lse = l.log_space_extent;
    let a: usize = kani::any();
    match m64::space_index(addr(a)) {
        None => assert!(a > l.heap_end.as_usize() || (a >> lse) >= MAX_SPACES, "C31.map64.none_only_outside_every_space"),
        Some(i) => {
            assert!(a <= l.heap_end.as_usize(), "C31.map64.some_only_up_to_heap_end");
            assert!(i == a >> lse && i < MAX_SPACES, "C31.map64.index_is_extent_number_inside_table");
        }
    }
    let expect_start = a & ((1usize << lse) - 1) == 0 && (a >> lse) < MAX_SPACES;
    assert!(m64::is_space_start(addr(a)) == expect_start, "C31.map64.is_space_start_iff_aligned_space_base");
}
