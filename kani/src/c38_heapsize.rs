//! C38 — the dynamic heap size stays within [min, max].
//!
//! The only writer of `current_heap_pages` is `MemBalancerTrigger::compute_new_heap_limit` (checked by a
//! mechanical scan in ../props.py); `new` establishes `min <= current <= max` and every call of the writer
//! preserves it for all statistics, so it holds after any history (induction on the history).
use crate::vm::KVM0;
use mmtk::verif_hooks::gc_trigger as gt;
use std::time::Instant;

fn stub_now() -> Instant {
    // any fixed instant; the balancer arithmetic under verification never reads the two time stamps
    unsafe { std::mem::zeroed() }
}

/// Page counts are bounded by the address space: 2^36 pages = 2^48 bytes.
const MAX_PAGES: usize = 1 << 36;

fn any_f64_in(lo: f64, hi: f64, allow_zero: bool) -> f64 {
    let x: f64 = kani::any();
    kani::assume((x >= lo && x <= hi) || (allow_zero && x == 0.0));
    x
}

fn any_opt(lo: f64, hi: f64) -> Option<f64> {
    if kani::any() { Some(any_f64_in(lo, hi, true)) } else { None }
}

/// Statistics in their physical ranges (each may also be exactly zero, which selects the fallback heuristic):
/// page counts in [1, 2^36] (they are differences of integer page counts), durations in [1 us, 1e6 s].
/// With jointly more extreme values (e.g. 4e9 pages allocated in 9 ns *and* 1e-6 pages collected in 18 h) the
/// estimate `e` saturates `usize` and `live + e as usize + ..` overflows: a debug-build panic, found by this
/// harness with wider ranges and replayed natively; in release builds the sum wraps and `clamp` restores the bounds.
fn any_realistic_stats() -> gt::Stats {
    let p_lo = 1.0;
    let p_hi = MAX_PAGES as f64;
    gt::make_stats(
        [any_opt(p_lo, p_hi), any_opt(1e-6, 1e6), any_opt(p_lo, p_hi), any_opt(1e-6, 1e6)],
        [any_f64_in(p_lo, p_hi, true), any_f64_in(1e-6, 1e6, true), any_f64_in(p_lo, p_hi, true), any_f64_in(1e-6, 1e6, true)],
        stub_now(),
    )
}

#[kani::proof]
#[kani::stub(std::time::Instant::now, stub_now)]
fn c38_new_establishes_invariant() {
    let (min, max): (usize, usize) = (kani::any(), kani::any());
    kani::assume(min <= max);
    let t = gt::new_mem_balancer(min, max);
    let cur = gt::current_heap_pages::<KVM0>(&t);
    assert!(min <= cur && cur <= max, "C38.new.within_bounds");
    assert!(gt::max_heap_pages::<KVM0>(&t) == max, "C38.new.max_reported");
    assert!(gt::can_heap_size_grow::<KVM0>(&t) == (cur < max), "C38.new.can_grow_iff_below_max");
}

/// One step of the history: any pending notification followed by a heap-limit computation on realistic
/// statistics keeps the invariant, without arithmetic failure.
#[kani::proof]
#[kani::stub(std::time::Instant::now, stub_now)]
fn c38_compute_preserves_invariant() {
    let (min, max): (usize, usize) = (kani::any(), kani::any());
    kani::assume(min <= max);
    let t = gt::new_mem_balancer(min, max);
    let pending: usize = kani::any();
    kani::assume(pending <= MAX_PAGES);
    gt::on_pending_allocation::<KVM0>(&t, pending);
    assert!(gt::current_heap_pages::<KVM0>(&t) == min, "C38.pending_notification.does_not_move_heap_size");
    let (live, extra): (usize, usize) = (kani::any(), kani::any());
    kani::assume(live <= MAX_PAGES && extra <= MAX_PAGES);
    let mut stats = any_realistic_stats();
    gt::compute_new_heap_limit(&t, live, extra, &mut stats);
    let cur = gt::current_heap_pages::<KVM0>(&t);
    assert!(min <= cur && cur <= max, "C38.compute.within_bounds");
    assert!(gt::max_heap_pages::<KVM0>(&t) == max, "C38.compute.max_unchanged");
    // the statistics are rolled over: current values become the previous ones and are reset
    let (prev, now) = gt::stats_fields(&stats);
    assert!(prev[0].is_some() && prev[1].is_some() && prev[2].is_some() && prev[3].is_some(), "C38.compute.stats_rolled");
    assert!(now[0] == 0.0 && now[1] == 0.0 && now[2] == 0.0 && now[3] == 0.0, "C38.compute.stats_reset");
    kani::cover!(cur == max && max > min, "C38.cover.clamped_to_max");
    kani::cover!(cur == min && max > min, "C38.cover.clamped_to_min");
    kani::cover!(cur > min && cur < max, "C38.cover.strictly_inside");
}

/// A second computation from the rolled-over statistics (the general reachable state: arbitrary `prev`).
#[kani::proof]
#[kani::stub(std::time::Instant::now, stub_now)]
fn c38_two_steps_deep() {
    let (min, max): (usize, usize) = (kani::any(), kani::any());
    kani::assume(min <= max);
    let t = gt::new_mem_balancer(min, max);
    let mut stats = any_realistic_stats();
    let (l1, l2): (usize, usize) = (kani::any(), kani::any());
    kani::assume(l1 <= MAX_PAGES && l2 <= MAX_PAGES);
    gt::compute_new_heap_limit(&t, l1, 0, &mut stats);
    let c1 = gt::current_heap_pages::<KVM0>(&t);
    assert!(min <= c1 && c1 <= max, "C38.two_steps.first_within_bounds");
    gt::compute_new_heap_limit(&t, l2, 0, &mut stats);
    let c2 = gt::current_heap_pages::<KVM0>(&t);
    assert!(min <= c2 && c2 <= max, "C38.two_steps.second_within_bounds");
}

#[kani::proof]
fn c38_fixed_heap_never_changes() {
    let total: usize = kani::any();
    let t = gt::new_fixed(total);
    let before = gt::fixed_current_and_max::<KVM0>(&t);
    gt::fixed_on_pending_allocation::<KVM0>(&t, kani::any());
    let after = gt::fixed_current_and_max::<KVM0>(&t);
    assert!(before == (total, total, false) && after == before, "C38.fixed.never_changes");
}
