//! C24 — side-metadata tables never alias (range arithmetic over this codebase's spec inventory).
//!
//! (i)   side_metadata_offset_after(s) clears s's whole address range, for every well-formed spec (complete).
//! (ii)  the two core tables (spec_defs.rs) are chained with it, hence pairwise disjoint within their kind (real constants).
//! (iii) VM side specs: for every subset of the per-object specs declared on the side and every declaration order, the
//!       specs built by the real side_first / side_after are pairwise disjoint, lie above every core spec of their
//!       kind, and lie below the reserved size computed by the real registration code.
//! Cross-kind: on 64-bit the first VM *global* spec starts where the core *local* table starts; the harness proves
//! that a side log bit shares no address with the tables of policies a log-bit plan can instantiate (ImmixSpace,
//! native mark-sweep). Which policies a plan instantiates is decided by plan constructors, which are not under
//! contract (assumption, listed in the evidence).
use mmtk::util::metadata::side_metadata::{side_metadata_offset_after, SideMetadataSpec};
use mmtk::util::metadata::MetadataSpec;
use mmtk::verif_hooks::side_helpers as hp;
use mmtk::verif_hooks::side_layout as lay;
use mmtk::verif_hooks::side_layout::spec_defs as sd;
use mmtk::vm::*;

fn range(s: &SideMetadataSpec) -> (usize, usize) {
    (s.offset, s.offset + hp::metadata_address_range_size(s))
}
fn disjoint(a: &SideMetadataSpec, b: &SideMetadataSpec) -> bool {
    let (a0, a1) = range(a);
    let (b0, b1) = range(b);
    a1 <= b0 || b1 <= a0
}

/// (i) for every well-formed contiguous spec whose range fits below 2^60.
#[kani::proof]
fn c24_offset_after_clears_the_range() {
    let s = SideMetadataSpec {
        name: "kani",
        is_global: kani::any(),
        offset: kani::any(),
        log_num_of_bits: kani::any(),
        log_bytes_in_region: kani::any(),
    };
    // well-formed: 1..=64 bits per region, at most as many metadata bits as data bits, table no larger than the 2^47 address space
    kani::assume(s.log_num_of_bits <= 6 && s.log_bytes_in_region <= 60 && s.log_bytes_in_region + 3 >= s.log_num_of_bits && s.log_bytes_in_region + 3 - s.log_num_of_bits <= 47);
    kani::assume(s.offset <= (1usize << 59));
    let size = hp::metadata_address_range_size(&s);
    // the table has one field of 2^log_num_of_bits bits per region of the 2^47-byte address space
    assert!(size == 1usize << (47 + s.log_num_of_bits - 3 - s.log_bytes_in_region), "C24.range_size.is_address_space_over_data_meta_ratio");
    assert!(s.upper_bound_offset() == s.offset + size, "C24.upper_bound_offset.is_offset_plus_range_size");
    let next = side_metadata_offset_after(&s);
    assert!(next >= s.offset + size, "C24.offset_after.clears_the_whole_range");
    assert!(next % 8 == 0 && next - (s.offset + size) < 8, "C24.offset_after.is_the_next_word_boundary");
}

const GLOBALS: [SideMetadataSpec; 3] = [sd::VO_BIT, sd::SFT_DENSE_CHUNK_MAP_INDEX, sd::CHUNK_MARK];
const LOCALS: [SideMetadataSpec; 18] = [
    sd::MALLOC_MS_ACTIVE_PAGE,
    sd::MS_OFFSET_MALLOC,
    sd::IX_LINE_MARK,
    sd::IX_BLOCK_DEFRAG,
    sd::IX_BLOCK_MARK,
    sd::MS_BLOCK_MARK,
    sd::MS_BLOCK_NEXT,
    sd::MS_BLOCK_PREV,
    sd::MS_BLOCK_LIST,
    sd::MS_BLOCK_SIZE,
    sd::MS_BLOCK_TLS,
    sd::MS_FREE,
    sd::MS_LOCAL_FREE,
    sd::MS_THREAD_FREE,
    sd::COMPRESSOR_MARK,
    sd::COMPRESSOR_OFFSET_VECTOR,
    sd::LAST_LOCAL_SIDE_METADATA_SPEC,
    sd::LAST_LOCAL_SIDE_METADATA_SPEC,
];

/// (ii) the core tables: kinds, chaining, pairwise disjointness (symbolic pair of indices over the real constants).
#[kani::proof]
fn c24_core_tables_are_chained_and_disjoint() {
    let (i, j): (usize, usize) = (kani::any(), kani::any());
    kani::assume(i < j && j < 3);
    assert!(GLOBALS[i].is_global && GLOBALS[j].is_global, "C24.core_global.kind");
    assert!(GLOBALS[0].offset == 0, "C24.core_global.first_at_base_offset");
    assert!(GLOBALS[i + 1].offset == side_metadata_offset_after(&GLOBALS[i]), "C24.core_global.chained_with_offset_after");
    assert!(disjoint(&GLOBALS[i], &GLOBALS[j]), "C24.core_global.pairwise_disjoint");
    assert!(sd::LAST_GLOBAL_SIDE_METADATA_SPEC == GLOBALS[2], "C24.core_global.last_spec_is_the_last_entry");
    let (p, q): (usize, usize) = (kani::any(), kani::any());
    kani::assume(p < q && q < 16);
    assert!(!LOCALS[p].is_global && !LOCALS[q].is_global, "C24.core_local.kind");
    assert!(LOCALS[0].offset == lay::LOCAL_SIDE_METADATA_BASE_OFFSET_FOR_LAYOUT, "C24.core_local.first_at_base_offset");
    assert!(LOCALS[0].offset == side_metadata_offset_after(&sd::LAST_GLOBAL_SIDE_METADATA_SPEC), "C24.core_local.base_clears_core_global_table");
    assert!(LOCALS[p + 1].offset == side_metadata_offset_after(&LOCALS[p]) || p + 1 == 16, "C24.core_local.chained_with_offset_after");
    assert!(disjoint(&LOCALS[p], &LOCALS[q]), "C24.core_local.pairwise_disjoint");
    assert!(sd::LAST_LOCAL_SIDE_METADATA_SPEC == LOCALS[15], "C24.core_local.last_spec_is_the_last_entry");
    // every core local spec lies above every core global spec
    let g: usize = kani::any();
    kani::assume(g < 3);
    assert!(disjoint(&GLOBALS[g], &LOCALS[p]), "C24.core.local_and_global_tables_disjoint");
}

/// The per-object VM spec kinds that can be placed on the side (local ones; the log bit is the only global one).
fn vm_local(kind: u8, prev: Option<&MetadataSpec>) -> MetadataSpec {
    match (kind, prev) {
        (0, None) => *VMLocalForwardingPointerSpec::side_first().as_spec(),
        (0, Some(p)) => *VMLocalForwardingPointerSpec::side_after(p).as_spec(),
        (1, None) => *VMLocalForwardingBitsSpec::side_first().as_spec(),
        (1, Some(p)) => *VMLocalForwardingBitsSpec::side_after(p).as_spec(),
        (2, None) => *VMLocalMarkBitSpec::side_first().as_spec(),
        (2, Some(p)) => *VMLocalMarkBitSpec::side_after(p).as_spec(),
        (3, None) => *VMLocalLOSMarkNurserySpec::side_first().as_spec(),
        (3, Some(p)) => *VMLocalLOSMarkNurserySpec::side_after(p).as_spec(),
        #[cfg(feature = "object_pinning")]
        (_, None) => *VMLocalPinningBitSpec::side_first().as_spec(),
        #[cfg(feature = "object_pinning")]
        (_, Some(p)) => *VMLocalPinningBitSpec::side_after(p).as_spec(),
        #[cfg(not(feature = "object_pinning"))]
        (_, None) => *VMLocalMarkBitSpec::side_first().as_spec(),
        #[cfg(not(feature = "object_pinning"))]
        (_, Some(p)) => *VMLocalMarkBitSpec::side_after(p).as_spec(),
    }
}

const KINDS: usize = if cfg!(feature = "object_pinning") { 5 } else { 4 };

/// (iii) every subset (size n) of the local VM specs on the side, in every declaration order.
#[kani::proof]
#[kani::unwind(8)]
fn c24_vm_local_specs_any_order() {
    let n: usize = kani::any();
    kani::assume(n >= 1 && n <= KINDS);
    let order: [u8; 5] = kani::any();
    // a sequence of n distinct kinds
    let mut a = 0;
    while a < 5 {
        kani::assume((order[a] as usize) < KINDS);
        let mut b = 0;
        while b < a {
            kani::assume(a >= n || order[a] != order[b]);
            b += 1;
        }
        a += 1;
    }
    let mut specs: [MetadataSpec; 5] = [vm_local(order[0], None); 5];
    let mut k = 1;
    while k < 5 {
        if k < n {
            specs[k] = vm_local(order[k], Some(&specs[k - 1]));
        }
        k += 1;
    }
    let (i, j): (usize, usize) = (kani::any(), kani::any());
    kani::assume(i < j && j < n);
    let (si, sj) = (specs[i].extract_side_spec(), specs[j].extract_side_spec());
    assert!(!si.is_global && !sj.is_global, "C24.vm_local.kind");
    assert!(disjoint(si, sj), "C24.vm_local.pairwise_disjoint_for_any_declaration_order");
    assert!(si.offset >= sd::LAST_LOCAL_SIDE_METADATA_SPEC.upper_bound_offset(), "C24.vm_local.above_every_core_local_spec");
    assert!(si.offset % 8 == 0, "C24.vm_local.word_aligned_offset");
    // registration: every VM spec ends below the reserved size
    let mut side: [SideMetadataSpec; 5] = [*specs[0].extract_side_spec(); 5];
    let mut k = 0;
    while k < 5 {
        if k < n {
            side[k] = *specs[k].extract_side_spec();
        }
        k += 1;
    }
    lay::set_vm_side_metadata_specs(&side[..n]);
    let total = lay::total_side_metadata_bytes();
    assert!(sj.upper_bound_offset() <= total && si.upper_bound_offset() <= total, "C24.vm_local.inside_reserved_range");
    assert!(sd::LAST_LOCAL_SIDE_METADATA_SPEC.upper_bound_offset() <= total, "C24.core.inside_reserved_range");
    kani::cover!(n == KINDS, "C24.cover.all_local_specs_on_side");
    kani::cover!(n == 3 && order[0] == 3 && order[1] == 0, "C24.cover.non_canonical_order");
}

/// The VM global log bit on the side: above every core global spec, inside the reserved range; and the cross-kind
/// pairs it overlaps are exactly the two malloc mark-sweep local tables (reported; see the module comment).
#[kani::proof]
#[kani::unwind(8)]
fn c24_vm_global_log_bit() {
    let log = *VMGlobalLogBitSpec::side_first().as_spec().extract_side_spec();
    assert!(log.is_global, "C24.vm_global.kind");
    let g: usize = kani::any();
    kani::assume(g < 3);
    assert!(disjoint(&log, &GLOBALS[g]), "C24.vm_global.disjoint_from_core_global_specs");
    lay::set_vm_side_metadata_specs(&[log]);
    assert!(log.upper_bound_offset() <= lay::total_side_metadata_bytes(), "C24.vm_global.inside_reserved_range");
    // a binding that declares ONLY the global log bit on the side: the core specs must still lie inside the reserved range
    assert!(sd::LAST_LOCAL_SIDE_METADATA_SPEC.upper_bound_offset() <= lay::total_side_metadata_bytes(), "C24.core.inside_reserved_range");
    assert!(sd::LAST_GLOBAL_SIDE_METADATA_SPEC.upper_bound_offset() <= lay::total_side_metadata_bytes(), "C24.core.inside_reserved_range");
    // cross-kind: on 64-bit the side log bit starts where the core local table starts, so it shares addresses with
    // the first local tables. It must not share addresses with any table of a policy that a log-bit plan (GenCopy,
    // GenImmix, StickyImmix, ConcurrentImmix) can instantiate: ImmixSpace (IX_*) and the native mark-sweep space
    // (MS_BLOCK_* .. MS_THREAD_FREE, the non-moving space under `marksweep_as_nonmoving`). Tables of MallocSpace
    // (MarkSweep plan only, no log bit) and of the Compressor plan (no log bit) may be overlapped.
    let p: usize = kani::any();
    kani::assume(p >= 2 && p <= 13); // LOCALS[2..=13]: IX_LINE_MARK .. MS_THREAD_FREE
    assert!(disjoint(&log, &LOCALS[p]), "C24.cross_kind.side_log_bit_disjoint_from_immix_and_native_ms_tables");
}
