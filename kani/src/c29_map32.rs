//! C29 — discontiguous chunk allocation keeps the region map consistent (sequential histories, bounded).
//!
//! The real `Map32` (constructed by its own `new()` and set up by its own `finalize_static_space_map` with N chunks of
//! discontiguous space) is driven through the `VMMap` trait by a symbolic history of allocate / free operations of two
//! spaces, the way `CommonPageResource::{grow_discontiguous_space, release_discontiguous_chunks}` drive it (the head of a
//! space's region list is the most recently allocated region). A shadow model in the harness records, per chunk, the
//! owning space and the region it belongs to; after every operation the real map must agree with it.
//! `SFT_MAP.clear` (global singleton) is compiled out under cfg(kani); see MANIFEST.hooks.
use mmtk::verif_hooks::VMMap;
use mmtk::util::Address;
use mmtk::verif_hooks::map32 as m32;
use mmtk::verif_hooks::SpaceDescriptor;

const LOG_CHUNK: usize = 22;
const CHUNK: usize = 1 << LOG_CHUNK;
const FIRST: usize = 4; // first chunk of the discontiguous range
const N: usize = 3; // chunks in the discontiguous range: FIRST ..= FIRST + N - 1
const SLOTS: usize = 16; // shadow arrays are indexed by chunk index

fn caddr(chunk: usize) -> Address {
    unsafe { Address::from_usize(chunk << LOG_CHUNK) }
}

/// Shadow model: `owner[c]` = 0 (free) / 1 / 2; `head_of[c]` = first chunk of the region c belongs to; `size[c]` = region
/// size in chunks (at region heads); `next[c]` = next region in the owner's list (0 = none), at region heads; `head[s]` =
/// first chunk of the most recently allocated region of space s (0 = none).
struct Shadow {
    owner: [u8; SLOTS],
    region: [usize; SLOTS],
    size: [usize; SLOTS],
    next: [usize; SLOTS],
    head: [usize; 3],
    free: usize,
}

fn check_against_shadow(map: &m32::Map32, sh: &Shadow, d: &[SpaceDescriptor; 3]) {
    assert!(map.get_available_discontiguous_chunks() == sh.free, "C29.available_count_equals_chunks_not_allocated");
    // any chunk of the range (symbolic witness): its descriptor names its owner exactly, or is clear when free
    let c: usize = kani::any();
    kani::assume(c >= FIRST && c < FIRST + N);
    let got = map.get_descriptor_for_address(caddr(c) + (kani::any::<usize>() % CHUNK));
    if sh.owner[c] == 0 {
        assert!(got.is_empty(), "C29.descriptor_cleared_when_free");
    } else {
        assert!(got == d[sh.owner[c] as usize], "C29.descriptor_names_the_owning_space");
    }
    // region lists: walking a space's list from its head visits exactly the shadow's regions, in order, with their sizes
    let s: usize = kani::any();
    kani::assume(s == 1 || s == 2);
    let mut r = sh.head[s];
    let mut steps = 0;
    while steps < N + 1 {
        if r == 0 {
            break;
        }
        assert!(sh.owner[r] == s as u8 && sh.region[r] == r, "C29.list_links_only_regions_of_its_space");
        assert!(map.get_contiguous_region_chunks(caddr(r)) == sh.size[r], "C29.region_size_is_what_was_allocated");
        let nx = map.get_next_contiguous_region(caddr(r));
        assert!(nx.as_usize() == sh.next[r] << LOG_CHUNK, "C29.list_links_exactly_the_allocated_regions");
        if sh.next[r] != 0 {
            assert!(m32::prev_link(map, sh.next[r]) as usize == r, "C29.back_links_mirror_forward_links");
        }
        r = sh.next[r];
        steps += 1;
    }
    assert!(r == 0, "C29.region_list_is_acyclic");
    if sh.head[s] != 0 {
        assert!(m32::prev_link(map, sh.head[s]) == 0, "C29.list_head_has_no_predecessor");
    }
}

fn history(ops: usize) {
    let map = m32::Map32::new();
    map.finalize_static_space_map(caddr(FIRST), caddr(FIRST + N - 1), &mut |_| {});
    let d = [SpaceDescriptor::UNINITIALIZED, SpaceDescriptor::create_descriptor(), SpaceDescriptor::create_descriptor()];
    assert!(d[1] != d[2] && !d[1].is_empty() && !d[2].is_empty(), "C29.descriptors_of_two_spaces_differ");
    let mut sh = Shadow { owner: [0; SLOTS], region: [0; SLOTS], size: [0; SLOTS], next: [0; SLOTS], head: [0; 3], free: N };
    check_against_shadow(&map, &sh, &d);
    let mut k = 0;
    let (mut saw_alloc, mut saw_free, mut saw_fail, mut saw_middle) = (false, false, false, false);
    while k < ops {
        let s: usize = kani::any();
        kani::assume(s == 1 || s == 2);
        if kani::any() {
            // allocate `n` chunks for space s, linked in front of its current head region
            let n: usize = kani::any();
            kani::assume(n >= 1 && n <= 2);
            let head = sh.head[s];
            let rtn = unsafe { map.allocate_contiguous_chunks(d[s], n, caddr(head), None) };
            // is there a run of n consecutive free chunks in the shadow?
            let mut fits = false;
            let mut c = FIRST;
            while c + n <= FIRST + N {
                if sh.owner[c] == 0 && (n == 1 || sh.owner[c + 1] == 0) {
                    fits = true;
                }
                c += 1;
            }
            if rtn.is_zero() {
                assert!(!fits, "C29.allocation_fails_only_without_a_free_run");
                saw_fail = true;
            } else {
                let r = rtn.as_usize() >> LOG_CHUNK;
                assert!(rtn.as_usize() % CHUNK == 0 && r >= FIRST && r + n <= FIRST + N, "C29.allocated_region_inside_the_discontiguous_range");
                assert!(sh.owner[r] == 0 && (n == 1 || sh.owner[r + 1] == 0), "C29.allocated_regions_are_disjoint");
                sh.owner[r] = s as u8;
                sh.region[r] = r;
                if n == 2 {
                    sh.owner[r + 1] = s as u8;
                    sh.region[r + 1] = r;
                }
                sh.size[r] = n;
                sh.next[r] = head;
                sh.head[s] = r;
                sh.free -= n;
                saw_alloc = true;
            }
        } else {
            // free a region of space s: symbolic choice among the chunks; must be a region head owned by s
            let r: usize = kani::any();
            kani::assume(r >= FIRST && r < FIRST + N && sh.owner[r] == s as u8 && sh.region[r] == r);
            let n = sh.size[r];
            let freed = unsafe { map.free_contiguous_chunks(caddr(r)) };
            assert!(freed == n, "C29.free_returns_the_region_size");
            // unlink from the shadow list (head, middle or tail)
            if sh.head[s] == r {
                sh.head[s] = sh.next[r];
            } else {
                let mut p = sh.head[s];
                let mut steps = 0;
                while steps < N {
                    if p != 0 && sh.next[p] == r {
                        sh.next[p] = sh.next[r];
                        if sh.next[r] != 0 {
                            saw_middle = true;
                        }
                        break;
                    }
                    if p != 0 {
                        p = sh.next[p];
                    }
                    steps += 1;
                }
            }
            assert!(n == 1 || n == 2, "C29.harness.shadow_region_sizes");
            sh.owner[r] = 0;
            sh.region[r] = 0;
            if n == 2 {
                sh.owner[r + 1] = 0;
                sh.region[r + 1] = 0;
            }
            sh.size[r] = 0;
            sh.next[r] = 0;
            sh.free += n;
            assert!(m32::next_link(&map, r) == 0 && m32::prev_link(&map, r) == 0, "C29.freed_region_is_unlinked");
            saw_free = true;
        }
        check_against_shadow(&map, &sh, &d);
        k += 1;
    }
    kani::cover!(saw_alloc && saw_free, "C29.cover.allocate_and_free");
    kani::cover!(saw_fail, "C29.cover.allocation_failure");
    kani::cover!(sh.head[1] != 0 && sh.head[2] != 0, "C29.cover.two_spaces_hold_regions");
    if ops >= 3 {
        kani::cover!(saw_middle, "C29.cover.freed_a_middle_region");
    }
    std::mem::forget(map);
}

/// `VMLayout::max_chunks()` (2^25 chunks on 64-bit: the size of Map32's per-chunk tables) replaced by 16 chunks, so that
/// CBMC can represent the tables.
fn stub_max_chunks(_l: &mmtk::util::heap::vm_layout::VMLayout) -> usize {
    SLOTS
}

#[kani::proof]
#[kani::unwind(20)]
#[kani::stub(mmtk::util::heap::vm_layout::VMLayout::max_chunks, stub_max_chunks)]
fn c29_history_2() {
    history(2);
}

#[kani::proof]
#[kani::unwind(20)]
#[kani::stub(mmtk::util::heap::vm_layout::VMLayout::max_chunks, stub_max_chunks)]
fn c29_history_3_deep() {
    history(3);
}
