//! C20 — side metadata behaves as an array of independent fixed-width integers.
//!
//! For each operation and each width class: symbolic spec (region size, offset, global/local), symbolic
//! window position in the address space, 32 bytes of fully symbolic metadata, symbolic operated
//! region `k` (and symbolic address inside it). Obligations: (ret) result == old field `k`;
//! (new) field `k` afterwards == the operation's arithmetic modulo 2^width; (frame) every other
//! bit of the window unchanged; (load) a load of any other region `j` returns field `j`.
use crate::side::*;
use mmtk::util::metadata::side_metadata::SideMetadataSpec;
use mmtk::util::Address;
use std::cell::Cell;
use std::sync::atomic::Ordering;

const ORD: Ordering = Ordering::SeqCst;
const MAXLBR: usize = 30;

macro_rules! c20_harnesses {
    ($t:ty, $logbits:expr, $ls:ident, $cas:ident, $ops:ident, $upd:ident, $zero:ident) => {
        #[kani::proof]
        #[kani::unwind(3)]
        #[kani::stub(mmtk::util::metadata::side_metadata::global_side_metadata_base_address, stub_base)]
        fn $ls() {
            let mut buf: [u64; 4] = kani::any();
            let old = buf;
            let lb: usize = $logbits;
            let win = Window::<4>::new(&mut buf, lb, MAXLBR);
            let k: usize = kani::any();
            kani::assume(k < win.n);
            let a = win.addr_in(k);
            let atomic: bool = kani::any();
            let r: $t = if atomic { win.spec.load_atomic::<$t>(a, ORD) } else { unsafe { win.spec.load::<$t>(a) } };
            assert!(r as u64 == win.field(&old, k), "C20.load.ret_is_field");
            assert!(same4(&buf, &old), "C20.load.frame");
            let v: $t = kani::any();
            kani::assume((v as u64) <= win.value_mask());
            if atomic { win.spec.store_atomic::<$t>(a, v, ORD) } else { unsafe { win.spec.store::<$t>(a, v) } };
            let new = buf;
            assert!(win.field(&new, k) == v as u64, "C20.store.new_is_val");
            assert!(frame4(&win, &old, &new, k), "C20.store.frame");
            // any other region still reads its own (unchanged) field
            let j: usize = kani::any();
            kani::assume(j < win.n && j != k);
            let rj: $t = win.spec.load_atomic::<$t>(win.addr_in(j), ORD);
            assert!(rj as u64 == win.field(&old, j), "C20.load.neighbour_unaffected");
            kani::cover!(k == win.n - 1 && win.spec.log_bytes_in_region == 12, "C20.cover.last_field_page_region");
            kani::cover!(win.r0 > (1 << 40), "C20.cover.high_window");
            kani::cover!(k != 0 && j == k - 1, "C20.cover.adjacent_neighbour");
        }

        #[kani::proof]
        #[kani::stub(mmtk::util::metadata::side_metadata::global_side_metadata_base_address, stub_base)]
        fn $cas() {
            let mut buf: [u64; 4] = kani::any();
            let old = buf;
            let lb: usize = $logbits;
            let win = Window::<4>::new(&mut buf, lb, MAXLBR);
            let k: usize = kani::any();
            kani::assume(k < win.n);
            let a = win.addr_in(k);
            let (o, n): ($t, $t) = (kani::any(), kani::any());
            kani::assume((o as u64) <= win.value_mask() && (n as u64) <= win.value_mask());
            let r = win.spec.compare_exchange_atomic::<$t>(a, o, n, ORD, ORD);
            let new = buf;
            let of = win.field(&old, k);
            if of == o as u64 {
                assert!(r == Ok(of as $t), "C20.compare_exchange.ok_returns_old_field");
                assert!(win.field(&new, k) == n as u64, "C20.compare_exchange.new_is_val");
                assert!(frame4(&win, &old, &new, k), "C20.compare_exchange.frame");
            } else {
                assert!(r == Err(of as $t), "C20.compare_exchange.err_returns_old_field");
                assert!(same4(&new, &old), "C20.compare_exchange.failure_changes_nothing");
            }
            kani::cover!(r.is_ok() && of != 0, "C20.cover.cas_ok");
            kani::cover!(r.is_err(), "C20.cover.cas_err");
        }

        #[kani::proof]
        #[kani::unwind(3)]
        #[kani::stub(mmtk::util::metadata::side_metadata::global_side_metadata_base_address, stub_base)]
        fn $ops() {
            let mut buf: [u64; 4] = kani::any();
            let old = buf;
            let lb: usize = $logbits;
            let win = Window::<4>::new(&mut buf, lb, MAXLBR);
            let k: usize = kani::any();
            kani::assume(k < win.n);
            let a = win.addr_in(k);
            let v: $t = kani::any();
            kani::assume((v as u64) <= win.value_mask());
            let op: u8 = kani::any();
            kani::assume(op < 4);
            let r = match op {
                0 => win.spec.fetch_add_atomic::<$t>(a, v, ORD),
                1 => win.spec.fetch_sub_atomic::<$t>(a, v, ORD),
                2 => win.spec.fetch_and_atomic::<$t>(a, v, ORD),
                _ => win.spec.fetch_or_atomic::<$t>(a, v, ORD),
            };
            let new = buf;
            let of = win.field(&old, k);
            let expect = match op {
                0 => of.wrapping_add(v as u64) & win.value_mask(),
                1 => of.wrapping_sub(v as u64) & win.value_mask(),
                2 => of & (v as u64),
                _ => of | (v as u64),
            };
            assert!(r as u64 == of, "C20.fetch_op.ret_is_old_field");
            assert!(win.field(&new, k) == expect, "C20.fetch_op.new_is_arith");
            assert!(frame4(&win, &old, &new, k), "C20.fetch_op.frame");
            kani::cover!(op == 0 && (of as u128) + (v as u128) > win.value_mask() as u128, "C20.cover.add_wraps");
            kani::cover!(op == 1 && (v as u64) > of, "C20.cover.sub_wraps");
        }

        #[kani::proof]
        #[kani::unwind(3)]
        #[kani::stub(mmtk::util::metadata::side_metadata::global_side_metadata_base_address, stub_base)]
        fn $upd() {
            let mut buf: [u64; 4] = kani::any();
            let old = buf;
            let lb: usize = $logbits;
            let win = Window::<4>::new(&mut buf, lb, MAXLBR);
            let k: usize = kani::any();
            kani::assume(k < win.n);
            let a = win.addr_in(k);
            let resp: Option<$t> = kani::any();
            let seen = Cell::new(0u64);
            let calls = Cell::new(0u8);
            let (seen_ref, calls_ref) = (&seen, &calls);
            let r = win.spec.fetch_update_atomic::<$t, _>(a, ORD, ORD, move |x: $t| {
                seen_ref.set(x as u64);
                calls_ref.set(calls_ref.get() + 1);
                resp
            });
            let new = buf;
            let of = win.field(&old, k);
            assert!(calls.get() == 1 && seen.get() == of, "C20.fetch_update.closure_sees_field_only");
            match resp {
                Some(nv) => {
                    assert!(r == Ok(of as $t), "C20.fetch_update.ok_returns_old_field");
                    assert!(win.field(&new, k) == (nv as u64) & win.value_mask(), "C20.fetch_update.new_is_val_truncated");
                    assert!(frame4(&win, &old, &new, k), "C20.fetch_update.frame");
                }
                None => {
                    assert!(r == Err(of as $t), "C20.fetch_update.err_returns_old_field");
                    assert!(same4(&new, &old), "C20.fetch_update.none_changes_nothing");
                }
            }
        }

        #[kani::proof]
        #[kani::unwind(3)]
        #[kani::stub(mmtk::util::metadata::side_metadata::global_side_metadata_base_address, stub_base)]
        fn $zero() {
            let mut buf: [u64; 4] = kani::any();
            let old = buf;
            let lb: usize = $logbits;
            let win = Window::<4>::new(&mut buf, lb, MAXLBR);
            let k: usize = kani::any();
            kani::assume(k < win.n);
            let a = win.addr_in(k);
            if kani::any() { win.spec.set_zero_atomic(a, ORD) } else { unsafe { win.spec.set_zero(a) } };
            let new = buf;
            assert!(win.field(&new, k) == 0, "C20.set_zero.new_is_zero");
            assert!(frame4(&win, &old, &new, k), "C20.set_zero.frame");
        }
    };
}

/// Sub-byte widths: log_num_of_bits symbolic in 0..=2 (1, 2, 4 bits per region).
fn any_bits() -> usize {
    let lb: usize = kani::any();
    kani::assume(lb <= 2);
    lb
}

c20_harnesses!(u8, any_bits(), c20_bits_load_store, c20_bits_compare_exchange, c20_bits_fetch_ops, c20_bits_fetch_update, c20_bits_set_zero);
c20_harnesses!(u8, 3, c20_u8_load_store, c20_u8_compare_exchange, c20_u8_fetch_ops, c20_u8_fetch_update, c20_u8_set_zero);
c20_harnesses!(u16, 4, c20_u16_load_store, c20_u16_compare_exchange, c20_u16_fetch_ops, c20_u16_fetch_update, c20_u16_set_zero);
c20_harnesses!(u32, 5, c20_u32_load_store, c20_u32_compare_exchange, c20_u32_fetch_ops, c20_u32_fetch_update, c20_u32_set_zero);
c20_harnesses!(u64, 6, c20_u64_load_store, c20_u64_compare_exchange, c20_u64_fetch_ops, c20_u64_fetch_update, c20_u64_set_zero);

// ------------------------------------------------------------------------------------------
// Helper contracts (in place in helpers.rs) and a modular caller proof against them.
// ------------------------------------------------------------------------------------------
use mmtk::verif_contracts::side as ct;
use mmtk::verif_hooks::side_helpers as hp;

fn any_spec() -> SideMetadataSpec {
    SideMetadataSpec {
        name: "kani",
        is_global: kani::any(),
        offset: kani::any(),
        log_num_of_bits: kani::any(),
        log_bytes_in_region: kani::any(),
    }
}

#[kani::proof_for_contract(mmtk::util::metadata::side_metadata::helpers::meta_byte_mask)]
fn c20_contract_meta_byte_mask() {
    hp::meta_byte_mask(&any_spec());
}

#[kani::proof_for_contract(mmtk::util::metadata::side_metadata::helpers::meta_byte_lshift)]
fn c20_contract_meta_byte_lshift() {
    hp::meta_byte_lshift(&any_spec(), kani::any());
}

/// Symbolic base: the contract is about arithmetic only, for *every* base/offset/address without overflow.
pub static mut SYM_BASE: usize = 0;
fn stub_sym_base() -> Address {
    unsafe { Address::from_usize(SYM_BASE) }
}

#[kani::proof_for_contract(mmtk::util::metadata::side_metadata::helpers::address_to_contiguous_meta_address)]
#[kani::stub(mmtk::util::metadata::side_metadata::global_side_metadata_base_address, stub_sym_base)]
fn c20_contract_address_to_meta_address() {
    let s = any_spec();
    unsafe { SYM_BASE = kani::any() };
    kani::assume(unsafe { SYM_BASE } <= usize::MAX - s.offset);
    hp::address_to_contiguous_meta_address(&s, kani::any());
}

/// Replayable twin of the three helper contracts + inverse translation.
#[kani::proof]
#[kani::stub(mmtk::util::metadata::side_metadata::global_side_metadata_base_address, stub_sym_base)]
fn c20_helpers() {
    let s = any_spec();
    let a: Address = kani::any();
    unsafe { SYM_BASE = kani::any() };
    kani::assume(unsafe { SYM_BASE } <= usize::MAX - s.offset);
    kani::assume(ct::pre_address_to_contiguous_meta_address(&s, a));
    let m = hp::address_to_contiguous_meta_address(&s, a);
    assert!(ct::post_address_to_contiguous_meta_address(&s, a, m), "C20.address_to_meta_address.post");
    let sh = hp::meta_byte_lshift(&s, a);
    assert!(ct::post_meta_byte_lshift(&s, a, sh), "C20.meta_byte_lshift.post");
    if s.log_num_of_bits <= 3 {
        let mask = hp::meta_byte_mask(&s);
        assert!(ct::post_meta_byte_mask(&s, mask), "C20.meta_byte_mask.post");
        // the shifted mask stays inside the byte
        assert!(((mask as u16) << sh) <= 0xff, "C20.mask_shift_in_byte");
    }
    // (byte, bit) is injective on regions: the bit index of the field is region_index * width
    let bit_index = ((m.as_usize() - s.get_starting_address().as_usize()) << 3) + sh as usize;
    if ct::region_index(&s, a) <= (usize::MAX >> 3 >> s.log_num_of_bits) {
        assert!(bit_index == ct::region_index(&s, a) << s.log_num_of_bits, "C20.field_position_is_index_times_width");
    }
    // inverse translation returns the region start
    // (the inverse needs a region of at least as many bytes as the field has bits: log_bytes_in_region >= log_num_of_bits)
    if s.log_bytes_in_region >= s.log_num_of_bits
        && (s.log_num_of_bits <= 3 || m.as_usize() % (1 << (s.log_num_of_bits - 3)) == 0)
    {
        let back = hp::contiguous_meta_address_to_address(&s, m, sh);
        assert!(back.as_usize() == ct::region_index(&s, a) << s.log_bytes_in_region, "C20.meta_to_data.inverse");
    }
    kani::cover!(s.log_num_of_bits == 1 && sh == 6, "C20.cover.helpers_2bit_top");
    kani::cover!(s.log_num_of_bits == 6 && s.log_bytes_in_region == 3, "C20.cover.helpers_64bit_per_word");
}

/// Modular step: the sub-byte accessors verified against the *contracts* of `meta_byte_lshift` and
/// `meta_byte_mask` (their bodies are replaced by havoc-under-postcondition).
#[kani::proof]
#[kani::unwind(3)]
#[kani::stub(mmtk::util::metadata::side_metadata::global_side_metadata_base_address, stub_base)]
#[kani::stub_verified(mmtk::util::metadata::side_metadata::helpers::meta_byte_lshift)]
#[kani::stub_verified(mmtk::util::metadata::side_metadata::helpers::meta_byte_mask)]
fn c20_bits_modular_over_helper_contracts() {
    let mut buf: [u64; 4] = kani::any();
    let old = buf;
    let win = Window::<4>::new(&mut buf, any_bits(), MAXLBR);
    let k: usize = kani::any();
    kani::assume(k < win.n);
    let a = win.addr_in(k);
    let r: u8 = win.spec.load_atomic::<u8>(a, ORD);
    assert!(r as u64 == win.field(&old, k), "C20.modular.load.ret_is_field");
    let v: u8 = kani::any();
    kani::assume((v as u64) <= win.value_mask());
    let r2 = win.spec.fetch_or_atomic::<u8>(a, v, ORD);
    let new = buf;
    assert!(r2 as u64 == win.field(&old, k), "C20.modular.fetch_or.ret_is_old_field");
    assert!(win.field(&new, k) == win.field(&old, k) | v as u64, "C20.modular.fetch_or.new_is_arith");
    assert!(frame4(&win, &old, &new, k), "C20.modular.fetch_or.frame");
    win.spec.store_atomic::<u8>(a, v, ORD);
    let new2 = buf;
    assert!(win.field(&new2, k) == v as u64, "C20.modular.store.new_is_val");
    assert!(frame4(&win, &old, &new2, k), "C20.modular.store.frame");
}
