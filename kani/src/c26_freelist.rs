//! C26 — free lists allocate disjoint runs and coalesce back completely.
//!
//! Layer 1 (complete): the bit-field accessors of `FreeList` on an arbitrary table.
//! Layer 2 (inductive step, bounded by the number of units only): for EVERY table of a 6-unit list (1 or 2 heads)
//! that satisfies the representation invariant `wf` -- not just tables reached by some particular history -- one
//! `alloc` / `alloc_from_unit` / `free` / `set_uncoalescable` preserves `wf` and changes the abstract view (the
//! sequence of runs with size / free / owning list / uncoalescable flag) exactly as specified. By induction over
//! the history this covers all alloc/free sequences of any length on lists of that size.
//!
//! `wf` and the view are computed by an oracle that reads the raw table (it does not call the accessors under test).
use mmtk::verif_hooks::freelist::{FreeList, IntArrayFreeList, FAILURE, MAX_UNITS};

const M: i32 = i32::MIN; // MULTI_MASK == FREE_MASK == 1 << 31
const COAL: i32 = 1 << 30;
const MASK30: i32 = (1 << 30) - 1;

const U: usize = 6;

#[derive(Clone, Copy, PartialEq)]
struct Run {
    start: bool,
    size: i32,
    free: bool,
    owner: i32, // head (negative) of the free list the run is on, 0 if none
    unc: bool,
}
const NORUN: Run = Run { start: false, size: 0, free: false, owner: 0, unc: false };

struct View {
    r: [Run; U],
    ok: bool,
}

struct Tab<'a> {
    t: &'a [i32],
    heads: i32,
}
impl<'a> Tab<'a> {
    fn lo(&self, u: i32) -> i32 {
        self.t[((u + self.heads) << 1) as usize]
    }
    fn hi(&self, u: i32) -> i32 {
        self.t[(((u + self.heads) << 1) + 1) as usize]
    }
}
fn dec(link: i32, head: i32) -> i32 {
    if link <= MAX_UNITS { link } else { head }
}

/// Representation invariant + abstraction function.
fn view(t: &[i32], heads: i32) -> View {
    let tb = Tab { t, heads };
    let units = U as i32;
    let mut v = View { r: [NORUN; U], ok: true };
    // (1) the runs tile [0, units); boundary tags of multi-unit runs are consistent
    let mut c: i32 = 0;
    let mut steps = 0;
    while c < units && steps < U {
        let multi = tb.hi(c) & M != 0;
        let s = if multi { tb.hi(c + 1) & MASK30 } else { 1 };
        // the multi flag is set exactly on runs of two or more units (get_left of the next run relies on it)
        if s < 1 || s > units - c || (multi && s < 2) {
            v.ok = false;
            break;
        }
        if s >= 2 {
            let last = tb.hi(c + s - 1);
            v.ok = v.ok && last & M != 0 && last & MASK30 == s;
        }
        v.r[c as usize] = Run { start: true, size: s, free: tb.lo(c) & M != 0, owner: 0, unc: tb.lo(c) & COAL != 0 };
        // interior units are coalescable (no stale boundary flags)
        let mut k = c + 1;
        while k < c + s {
            v.ok = v.ok && tb.lo(k) & COAL == 0;
            k += 1;
        }
        c += s;
        steps += 1;
    }
    v.ok = v.ok && c == units;
    // (2) sentinels: the unit left of unit 0 is a non-free single unit, the bottom sentinel is not free
    v.ok = v.ok && tb.hi(-1) & M == 0 && tb.lo(-1) & M == 0 && tb.lo(units) & M == 0;
    // (3) each head's list is a cyclic doubly linked list of free run starts; no run is on two lists
    let mut h = 1;
    while h <= heads {
        let head = -h;
        let mut prev = head;
        let mut x = dec(tb.hi(head) & MASK30, head);
        let mut n = 0;
        while x != head && n < U {
            if !(x >= 0 && x < units) {
                v.ok = false;
                break;
            }
            let r = v.r[x as usize];
            v.ok = v.ok && r.start && r.free && r.owner == 0 && dec(tb.lo(x) & MASK30, head) == prev;
            v.r[x as usize].owner = head;
            prev = x;
            x = dec(tb.hi(x) & MASK30, head);
            n += 1;
        }
        v.ok = v.ok && x == head && dec(tb.lo(head) & MASK30, head) == prev;
        h += 1;
    }
    // (4) every free run is on a list
    let mut u = 0;
    while u < U {
        if v.r[u].start && v.r[u].free {
            v.ok = v.ok && v.r[u].owner != 0;
        }
        u += 1;
    }
    v
}

/// A list object over a fully symbolic table satisfying `wf`, operated through head `-(1..=heads)`.
fn any_wf_list(heads: i32) -> (IntArrayFreeList, View) {
    let len = (U + 1 + heads as usize) << 1;
    let mut tab: Vec<i32> = vec![0; len];
    let mut i = 0;
    while i < len {
        tab[i] = kani::any();
        i += 1;
    }
    let v = view(&tab, heads);
    kani::assume(v.ok);
    let head: i32 = kani::any();
    kani::assume(head >= 1 && head <= heads);
    let mut fl = IntArrayFreeList::new(0, 1, 0);
    fl.heads = heads;
    fl.head = -head;
    fl.table = Some(tab);
    (fl, v)
}

fn same_except(pre: &View, post: &View, lo: i32, hi: i32) -> bool {
    // every unit outside [lo, hi) has the same run information before and after
    let j: usize = kani::any();
    kani::assume(j < U);
    !((j as i32) < lo || (j as i32) >= hi) || pre.r[j] == post.r[j]
}

fn check_alloc(heads: i32) {
    let (mut fl, pre) = any_wf_list(heads);
    let before = fl.table.clone().unwrap();
    let n: i32 = kani::any();
    kani::assume(n >= 1 && n <= U as i32);
    let r = fl.alloc(n);
    let post = view(fl.table.as_ref().unwrap(), heads);
    assert!(post.ok, "C26.alloc.preserves_wf");
    let j: usize = kani::any();
    kani::assume(j < U);
    if r == FAILURE {
        // fails only when no free run of that length is on this list; nothing changes
        assert!(!(pre.r[j].start && pre.r[j].free && pre.r[j].owner == fl.head && pre.r[j].size >= n), "C26.alloc.fails_only_if_no_free_run_fits");
        let w: usize = kani::any();
        kani::assume(w < before.len());
        assert!(before[w] == fl.table.as_ref().unwrap()[w], "C26.alloc.failure_changes_nothing");
    } else {
        assert!(r >= 0 && (r as usize) < U, "C26.alloc.result_inside_list");
        let p = pre.r[r as usize];
        assert!(p.start && p.free && p.owner == fl.head && p.size >= n, "C26.alloc.takes_a_free_run_of_this_list_that_fits");
        let q = post.r[r as usize];
        assert!(q.start && !q.free && q.size == n && q.unc == p.unc, "C26.alloc.allocated_run_has_requested_size");
        assert!(fl.size(r) == n, "C26.size.reports_run_length");
        if p.size > n {
            let rest = post.r[(r + n) as usize];
            assert!(rest.start && rest.free && rest.size == p.size - n && rest.owner == fl.head && !rest.unc, "C26.alloc.remainder_is_a_free_run_on_this_list");
        }
        // interior units of the old run other than r and r+n are not run starts
        let k = j as i32;
        if k > r && k < r + p.size && k != r + n {
            assert!(!post.r[j].start, "C26.alloc.no_other_run_created");
        }
        assert!(same_except(&pre, &post, r, r + p.size), "C26.alloc.other_runs_unchanged");
    }
    kani::cover!(r != FAILURE && pre.r[r as usize].size > n, "C26.cover.alloc_splits");
    kani::cover!(r == FAILURE, "C26.cover.alloc_fails");
    kani::cover!(r != FAILURE && r > 2, "C26.cover.alloc_from_later_run");
}

fn check_alloc_from_unit(heads: i32) {
    let (mut fl, pre) = any_wf_list(heads);
    let before = fl.table.clone().unwrap();
    let n: i32 = kani::any();
    let u: i32 = kani::any();
    kani::assume(n >= 1 && n <= U as i32 && u >= 0 && (u as usize) < U);
    // callers pass the first unit of a run (of this list, if it is free)
    kani::assume(pre.r[u as usize].start && (!pre.r[u as usize].free || pre.r[u as usize].owner == fl.head));
    let r = fl.alloc_from_unit(n, u);
    let post = view(fl.table.as_ref().unwrap(), heads);
    assert!(post.ok, "C26.alloc_from_unit.preserves_wf");
    let p = pre.r[u as usize];
    if r == FAILURE {
        assert!(!(p.free && p.size >= n), "C26.alloc_from_unit.fails_only_if_run_not_free_or_too_small");
        let w: usize = kani::any();
        kani::assume(w < before.len());
        assert!(before[w] == fl.table.as_ref().unwrap()[w], "C26.alloc_from_unit.failure_changes_nothing");
    } else {
        assert!(r == u && p.free && p.size >= n, "C26.alloc_from_unit.allocates_that_run");
        let q = post.r[u as usize];
        assert!(q.start && !q.free && q.size == n, "C26.alloc_from_unit.allocated_run_has_requested_size");
        if p.size > n {
            let rest = post.r[(u + n) as usize];
            assert!(rest.start && rest.free && rest.size == p.size - n && rest.owner == fl.head, "C26.alloc_from_unit.remainder_is_free");
        }
        assert!(same_except(&pre, &post, u, u + p.size), "C26.alloc_from_unit.other_runs_unchanged");
    }
    kani::cover!(r != FAILURE && p.size > n, "C26.cover.alloc_from_unit_splits");
}

fn check_free(heads: i32) {
    let (mut fl, pre) = any_wf_list(heads);
    let u: i32 = kani::any();
    kani::assume(u >= 0 && (u as usize) < U);
    let p = pre.r[u as usize];
    // precondition (the code's debug_assert): u is the first unit of an allocated run
    kani::assume(p.start && !p.free);
    let coalesced_size: bool = kani::any();
    // neighbours
    let right = u + p.size;
    let has_right = (right as usize) < U;
    let merge_right = has_right && pre.r[right as usize].free && !pre.r[right as usize].unc;
    let mut left = u - 1;
    let mut steps = 0;
    while left >= 0 && !pre.r[left as usize].start && steps < U {
        left -= 1;
        steps += 1;
    }
    let merge_left = u > 0 && pre.r[left as usize].free && !p.unc;
    // runs merged into one list belong to that list (lists sharing a table are separated by uncoalescable boundaries)
    kani::assume(!merge_left || pre.r[left as usize].owner == fl.head);
    kani::assume(!merge_right || pre.r[right as usize].owner == fl.head);
    let a = if merge_left { left } else { u };
    let b = if merge_right { right + pre.r[right as usize].size } else { right };
    let ret = fl.free(u, coalesced_size);
    let post = view(fl.table.as_ref().unwrap(), heads);
    assert!(post.ok, "C26.free.preserves_wf");
    assert!(ret == if coalesced_size { b - a } else { p.size }, "C26.free.returns_freed_size");
    let q = post.r[a as usize];
    assert!(q.start && q.free && q.size == b - a && q.owner == fl.head, "C26.free.run_is_free_and_coalesced_with_free_coalescable_neighbours");
    assert!(q.unc == pre.r[a as usize].unc, "C26.free.keeps_boundary_flag");
    let j: usize = kani::any();
    kani::assume(j < U);
    if (j as i32) > a && (j as i32) < b {
        assert!(!post.r[j].start, "C26.free.merged_run_has_no_inner_boundaries");
    }
    assert!(same_except(&pre, &post, a, b), "C26.free.other_runs_unchanged");
    kani::cover!(merge_left && merge_right, "C26.cover.free_coalesces_both_sides");
    kani::cover!(!merge_left && u > 0 && pre.r[left as usize].free, "C26.cover.free_blocked_by_uncoalescable_boundary");
    kani::cover!(!merge_left && !merge_right, "C26.cover.free_no_coalescing");
}

fn check_boundary_flags(heads: i32) {
    let (mut fl, pre) = any_wf_list(heads);
    let u: i32 = kani::any();
    kani::assume(u >= 0 && (u as usize) < U && pre.r[u as usize].start);
    let set: bool = kani::any();
    if set {
        fl.set_uncoalescable(u);
    } else {
        fl.clear_uncoalescable(u);
    }
    let post = view(fl.table.as_ref().unwrap(), heads);
    assert!(post.ok, "C26.boundary_flag.preserves_wf");
    assert!(post.r[u as usize].unc == set && fl.is_coalescable(u) == !set, "C26.boundary_flag.is_set");
    let mut e = pre.r[u as usize];
    e.unc = set;
    assert!(post.r[u as usize] == e, "C26.boundary_flag.changes_only_the_flag");
    assert!(same_except(&pre, &post, u, u + 1), "C26.boundary_flag.other_runs_unchanged");
}

macro_rules! c26_harness {
    ($name:ident, $f:ident, $heads:expr) => {
        #[kani::proof]
        #[kani::unwind(20)]
        fn $name() {
            $f($heads);
        }
    };
}
c26_harness!(c26_alloc_h1, check_alloc, 1);
c26_harness!(c26_alloc_h2_deep, check_alloc, 2);
c26_harness!(c26_alloc_from_unit_h1, check_alloc_from_unit, 1);
c26_harness!(c26_alloc_from_unit_h2_deep, check_alloc_from_unit, 2);
c26_harness!(c26_free_h1, check_free, 1);
c26_harness!(c26_free_h2_deep, check_free, 2);
c26_harness!(c26_boundary_flags_h1, check_boundary_flags, 1);

/// Base case of the induction: the table built by the real constructor satisfies `wf`, and its runs are the
/// documented initial runs (grain-sized, free, coalescable, on list -1; a shorter last run when grain does not divide).
fn check_new(heads: usize) {
    let grain: i32 = kani::any();
    kani::assume(grain >= 1 && grain <= U as i32);
    let fl = IntArrayFreeList::new(U, grain, heads);
    let v = view(fl.table.as_ref().unwrap(), heads as i32);
    assert!(v.ok, "C26.new.establishes_wf");
    let j: usize = kani::any();
    kani::assume(j < U);
    let is_start = (j as i32) % grain == 0;
    assert!(v.r[j].start == is_start, "C26.new.runs_start_at_grain_multiples");
    if is_start {
        let expect = if (j as i32) + grain <= U as i32 { grain } else { U as i32 - j as i32 };
        assert!(v.r[j].size == expect && v.r[j].free && v.r[j].owner == -1 && !v.r[j].unc, "C26.new.initial_runs_are_free_grains");
    }
    kani::cover!(grain == 4, "C26.cover.grain_does_not_divide");
}
#[kani::proof]
#[kani::unwind(20)]
fn c26_new_establishes_wf_h1() {
    check_new(1);
}
#[kani::proof]
#[kani::unwind(20)]
fn c26_new_establishes_wf_h2() {
    check_new(2);
}

/// A child list created with `from_parent` operates on the parent's table through its own head.
#[kani::proof]
#[kani::unwind(20)]
fn c26_child_list_shares_parent_table() {
    let mut parent = IntArrayFreeList::new(U, 2, 2);
    let mut child = IntArrayFreeList::from_parent(&parent, 1);
    assert!(child.head() == -2 && child.heads() == 2, "C26.child.head_is_second_sentinel");
    // the child's list is empty: allocation from it fails although the parent's list has free runs
    assert!(child.alloc(1) == FAILURE, "C26.child.empty_list_fails");
    // move a run from the parent's list to the child's list: allocate it from the parent, free it through the child
    let u = parent.alloc(2);
    assert!(u != FAILURE, "C26.child.parent_alloc");
    parent.set_uncoalescable(u);
    parent.set_uncoalescable(u + 2);
    child.free(u, false);
    let v = view(parent.table.as_ref().unwrap(), 2);
    assert!(v.ok, "C26.child.wf_after_transfer");
    assert!(v.r[u as usize].free && v.r[u as usize].owner == -2 && v.r[u as usize].size == 2, "C26.child.run_is_on_child_list");
    assert!(child.alloc(2) == u, "C26.child.allocates_its_own_run");
}

// ------------------------------------------------------------------------------------------
// Layer 1: bit-field accessors on an arbitrary table (complete)
// ------------------------------------------------------------------------------------------

fn any_list_raw(heads: i32) -> IntArrayFreeList {
    let len = (U + 1 + heads as usize) << 1;
    let mut tab: Vec<i32> = vec![0; len];
    let mut i = 0;
    while i < len {
        tab[i] = kani::any();
        i += 1;
    }
    let mut fl = IntArrayFreeList::new(0, 1, 0);
    fl.heads = heads;
    fl.head = -1;
    fl.table = Some(tab);
    fl
}

#[kani::proof]
#[kani::unwind(20)]
fn c26_bitfields() {
    let heads = 2;
    let mut fl = any_list_raw(heads);
    let before = fl.table.clone().unwrap();
    let u: i32 = kani::any();
    kani::assume(u >= -heads && u <= U as i32);
    let idx_lo = ((u + heads) << 1) as usize;
    let idx_hi = idx_lo + 1;
    let j: usize = kani::any();
    kani::assume(j < before.len());
    let which: u8 = kani::any();
    match which {
        0 => {
            // links: any value in the documented range round-trips; heads decode to this list's head
            let link: i32 = kani::any();
            kani::assume(link >= -heads && link <= MAX_UNITS);
            fl.set_next(u, link);
            let t = fl.table.as_ref().unwrap();
            assert!(fl.get_next(u) == if link >= 0 { link } else { fl.head() }, "C26.bits.next_roundtrip");
            assert!(t[idx_hi] & !MASK30 == before[idx_hi] & !MASK30, "C26.bits.set_next_keeps_flag_bits");
            assert!(j == idx_hi || t[j] == before[j], "C26.bits.set_next_touches_one_entry");
        }
        1 => {
            let link: i32 = kani::any();
            kani::assume(link >= -heads && link <= MAX_UNITS);
            fl.set_prev(u, link);
            let t = fl.table.as_ref().unwrap();
            assert!(fl.get_prev(u) == if link >= 0 { link } else { fl.head() }, "C26.bits.prev_roundtrip");
            assert!(t[idx_lo] & !MASK30 == before[idx_lo] & !MASK30, "C26.bits.set_prev_keeps_flag_bits");
            assert!(j == idx_lo || t[j] == before[j], "C26.bits.set_prev_touches_one_entry");
        }
        2 => {
            // size: 1 <= size, run inside the table
            let s: i32 = kani::any();
            kani::assume(u >= 0 && s >= 1 && s <= U as i32 && u + s <= U as i32);
            fl.set_size(u, s);
            let t = fl.table.as_ref().unwrap();
            assert!(fl.get_size(u) == s && fl.size(u) == s, "C26.bits.size_roundtrip");
            assert!(fl.get_right(u) == u + s, "C26.bits.right_neighbour");
            assert!(fl.get_left(u + s) == u, "C26.bits.left_neighbour_of_next_run");
            assert!(t[idx_hi] & MASK30 == before[idx_hi] & MASK30, "C26.bits.set_size_keeps_next_link");
            assert!(j % 2 == 1 || t[j] == before[j], "C26.bits.set_size_touches_only_hi_entries");
            let uj = (j >> 1) as i32 - heads;
            assert!(uj == u || (s > 1 && (uj == u + 1 || uj == u + s - 1)) || t[j] == before[j], "C26.bits.set_size_touches_only_its_run");
        }
        3 => {
            let f: bool = kani::any();
            kani::assume(u >= 0 && u < U as i32);
            let s = fl.get_size(u);
            kani::assume(s >= 1 && s <= U as i32 && u + s <= U as i32 + 1);
            fl.set_free(u, f);
            let t = fl.table.as_ref().unwrap();
            assert!(fl.get_free(u) == f && fl.is_free(u) == f, "C26.bits.free_roundtrip");
            assert!(t[idx_lo] & !M == before[idx_lo] & !M, "C26.bits.set_free_keeps_prev_link_and_boundary_flag");
            assert!(j % 2 == 0 || t[j] == before[j], "C26.bits.set_free_touches_only_lo_entries");
            let uj = (j >> 1) as i32 - heads;
            assert!(uj == u || (s > 1 && uj == u + s - 1) || t[j] == before[j], "C26.bits.set_free_touches_only_its_run");
            assert!(t[j] & !M == before[j] & !M, "C26.bits.set_free_changes_only_the_free_bit");
        }
        4 => {
            fl.set_sentinel(u);
            assert!(fl.get_next(u) == if u >= 0 { u } else { fl.head() }, "C26.bits.sentinel_next");
            assert!(!fl.get_free(u) && fl.is_coalescable(u) && !fl.is_multi(u), "C26.bits.sentinel_is_a_used_single_unit");
            let t = fl.table.as_ref().unwrap();
            assert!(j == idx_lo || j == idx_hi || t[j] == before[j], "C26.bits.set_sentinel_touches_one_unit");
        }
        _ => {
            let set: bool = kani::any();
            if set {
                fl.set_uncoalescable(u)
            } else {
                fl.clear_uncoalescable(u)
            }
            let t = fl.table.as_ref().unwrap();
            assert!(fl.is_coalescable(u) == !set, "C26.bits.boundary_flag_roundtrip");
            assert!(t[idx_lo] & !COAL == before[idx_lo] & !COAL, "C26.bits.boundary_flag_keeps_other_bits");
            assert!(j == idx_lo || t[j] == before[j], "C26.bits.boundary_flag_touches_one_entry");
        }
    }
}
