//! C25 — the side-metadata sanity check rejects exactly the overlapping spec sets.
//!
//! Specification: two specs overlap iff their metadata address ranges
//! `[start_i, start_i + metadata_address_range_size_i)` intersect, `start_i = base + offset_i`.
use mmtk::util::metadata::side_metadata::sanity_verif_hooks as sn;
use mmtk::util::metadata::side_metadata::SideMetadataSpec;
use mmtk::util::Address;
use mmtk::verif_hooks::side_helpers as hp;

static mut SYM_BASE: usize = 0;
fn stub_sym_base() -> Address {
    unsafe { Address::from_usize(SYM_BASE) }
}
/// error paths format the offending specs; the text is irrelevant to the property
fn stub_format(_args: std::fmt::Arguments<'_>) -> String {
    String::new()
}

const LOG_ARCH: usize = 47;

fn any_wf_spec(name: &'static str, global: bool) -> SideMetadataSpec {
    let s = SideMetadataSpec {
        name,
        is_global: global,
        offset: kani::any(),
        log_num_of_bits: kani::any(),
        log_bytes_in_region: kani::any(),
    };
    kani::assume(s.log_num_of_bits <= 6 && s.log_bytes_in_region < 64);
    kani::assume(s.log_bytes_in_region + 3 >= s.log_num_of_bits);
    // range size is 2^(47 - ratio): the ratio must not exceed the architectural address-space bits
    kani::assume(s.log_bytes_in_region + 3 - s.log_num_of_bits <= LOG_ARCH);
    // offsets live in the reservable metadata range
    kani::assume(s.offset <= (1usize << 50));
    s
}

fn range_size(s: &SideMetadataSpec) -> usize {
    1usize << (LOG_ARCH - (s.log_bytes_in_region + 3 - s.log_num_of_bits))
}

fn overlap(a: &SideMetadataSpec, b: &SideMetadataSpec) -> bool {
    // [oa, oa+sa) and [ob, ob+sb) intersect (sizes are >= 1)
    a.offset < b.offset + range_size(b) && b.offset < a.offset + range_size(a)
}

#[kani::proof]
#[kani::stub(mmtk::util::metadata::side_metadata::global_side_metadata_base_address, stub_sym_base)]
#[kani::stub(alloc::fmt::format, stub_format)]
fn c25_pair() {
    let global: bool = kani::any();
    let a = any_wf_spec("a", global);
    let b = any_wf_spec("b", global);
    unsafe { SYM_BASE = kani::any() };
    kani::assume(unsafe { SYM_BASE } <= (1usize << 62));
    assert!(hp::metadata_address_range_size(&a) == range_size(&a), "C25.range_size.oracle_agrees");
    let r = sn::verify_no_overlap_contiguous(&a, &b);
    let is_err = r.is_err();
    std::mem::forget(r); // the io::Error's drop glue is not part of the property
    if overlap(&a, &b) {
        assert!(is_err, "C25.pair.overlap_rejected");
    } else {
        assert!(!is_err, "C25.pair.disjoint_accepted");
    }
    kani::cover!(overlap(&a, &b) && a.offset != b.offset, "C25.cover.partial_overlap");
    kani::cover!(!overlap(&a, &b) && a.offset > b.offset, "C25.cover.disjoint_a_above");
    kani::cover!(a.offset + range_size(&a) == b.offset, "C25.cover.adjacent");
}

/// `verify_global_specs_total_size` on every slice of up to 3 specs: Err iff the summed range sizes exceed
/// 2^(47 - LOG_GLOBAL_SIDE_METADATA_WORST_CASE_RATIO) (= 2^46 on 64-bit).
#[kani::proof]
#[kani::unwind(5)]
#[kani::stub(alloc::fmt::format, stub_format)]
fn c25_total_size() {
    let specs = [any_wf_spec("a", true), any_wf_spec("b", true), any_wf_spec("c", true)];
    let n: usize = kani::any();
    kani::assume(n <= 3);
    let r = sn::verify_global_specs_total_size(&specs[..n]);
    let is_err = r.is_err();
    std::mem::forget(r);
    let mut total = 0usize;
    if n >= 1 { total += range_size(&specs[0]); }
    if n >= 2 { total += range_size(&specs[1]); }
    if n >= 3 { total += range_size(&specs[2]); }
    assert!(is_err == (total > (1usize << (LOG_ARCH - 1))), "C25.total_size.err_iff_too_big");
    kani::cover!(n == 3 && is_err && range_size(&specs[0]) < (1usize << 45), "C25.cover.sum_too_big");
    kani::cover!(n == 3 && !is_err, "C25.cover.sum_fits");
}

// Modular composition step: `verify_global_specs` against the *contracts* of its two callees.
// io::Result is not `Arbitrary`, so `stub_verified` cannot be used; the callees are replaced by stubs that
// return Err exactly when an arbitrary (symbolic) predicate table says so. c25_total_size and c25_pair prove
// that the real callees compute the predicates "sum too big" and "ranges intersect".
static mut TOO_BIG: bool = false;
static mut OV: [[bool; 3]; 3] = [[false; 3]; 3];
fn idx(s: &SideMetadataSpec) -> usize {
    (s.name.as_bytes()[0] - b'a') as usize
}
fn total_contract(_g: &[SideMetadataSpec]) -> std::io::Result<()> {
    if unsafe { TOO_BIG } { Err(std::io::Error::from(std::io::ErrorKind::InvalidInput)) } else { Ok(()) }
}
fn pair_contract(a: &SideMetadataSpec, b: &SideMetadataSpec) -> std::io::Result<()> {
    if unsafe { OV[idx(a)][idx(b)] } { Err(std::io::Error::from(std::io::ErrorKind::InvalidInput)) } else { Ok(()) }
}

/// Err iff (total too big) or (some ordered pair of *different* specs of the slice is reported overlapping).
#[kani::proof]
#[kani::unwind(5)]
#[kani::stub(mmtk::util::metadata::side_metadata::sanity::verify_global_specs_total_size, total_contract)]
#[kani::stub(mmtk::util::metadata::side_metadata::sanity::verify_no_overlap_contiguous, pair_contract)]
fn c25_global_specs() {
    let specs = [any_wf_spec("a", true), any_wf_spec("b", true), any_wf_spec("c", true)];
    let n: usize = kani::any();
    kani::assume(n <= 3);
    unsafe {
        TOO_BIG = kani::any();
        OV = kani::any();
    }
    let r = sn::verify_global_specs(&specs[..n]);
    let is_err = r.is_err();
    std::mem::forget(r);
    let mut any = false;
    let mut i = 0;
    while i < n {
        let mut j = 0;
        while j < n {
            if specs[i] != specs[j] && unsafe { OV[i][j] } {
                any = true;
            }
            j += 1;
        }
        i += 1;
    }
    assert!(is_err == (unsafe { TOO_BIG } || any), "C25.global_specs.err_iff_too_big_or_some_pair_overlaps");
    kani::cover!(n == 3 && !is_err, "C25.cover.three_ok");
    kani::cover!(n == 3 && is_err && !unsafe { TOO_BIG }, "C25.cover.three_overlap");
    kani::cover!(n == 2 && unsafe { OV[1][0] } && !unsafe { OV[0][1] } && is_err, "C25.cover.asymmetric_report_still_rejected");
}

/// Per-spec size limit for local specs (64-bit): Err iff some spec's range exceeds 2^(47-1).
#[kani::proof]
#[kani::unwind(4)]
#[kani::stub(alloc::fmt::format, stub_format)]
fn c25_local_specs_size() {
    let specs = [any_wf_spec("a", false), any_wf_spec("b", false)];
    let n: usize = kani::any();
    kani::assume(n <= 2);
    let r = sn::verify_local_specs_size(&specs[..n]);
    let is_err = r.is_err();
    std::mem::forget(r);
    let lim = 1usize << (LOG_ARCH - 1);
    let too_big = (n >= 1 && range_size(&specs[0]) > lim) || (n >= 2 && range_size(&specs[1]) > lim);
    assert!(is_err == too_big, "C25.local_specs_size.err_iff_too_big");
    kani::cover!(too_big, "C25.cover.local_too_big");
}
