//! C25 — the side-metadata sanity check rejects exactly the overlapping spec sets.
//!
//! Specification: two specs overlap iff their metadata address ranges
//! `[start_i, start_i + metadata_address_range_size_i)` intersect, `start_i = base + offset_i`.
use mmtk::util::metadata::side_metadata::sanity_verif_hooks as sn;
use mmtk::util::metadata::side_metadata::SideMetadataSpec;
use mmtk::util::Address;
use mmtk::verif_hooks::side_helpers as hp;

static mut SYM_BASE: usize = 0;
fn stub_sym_base() -> Address {
    unsafe { Address::from_usize(SYM_BASE) }
}
/// error paths format the offending specs; the text is irrelevant to the property
fn stub_format(_args: std::fmt::Arguments<'_>) -> String {
    String::new()
}

const LOG_ARCH: usize = 47;

fn any_wf_spec(name: &'static str, global: bool) -> SideMetadataSpec {
    let s = SideMetadataSpec {
        name,
        is_global: global,
        offset: kani::any(),
        log_num_of_bits: kani::any(),
        log_bytes_in_region: kani::any(),
    };
    kani::assume(s.log_num_of_bits <= 6 && s.log_bytes_in_region < 64);
    kani::assume(s.log_bytes_in_region + 3 >= s.log_num_of_bits);
    // range size is 2^(47 - ratio): the ratio must not exceed the architectural address-space bits
    kani::assume(s.log_bytes_in_region + 3 - s.log_num_of_bits <= LOG_ARCH);
    // offsets live in the reservable metadata range
    kani::assume(s.offset <= (1usize << 50));
    s
}

fn range_size(s: &SideMetadataSpec) -> usize {
    1usize << (LOG_ARCH - (s.log_bytes_in_region + 3 - s.log_num_of_bits))
}

fn overlap(a: &SideMetadataSpec, b: &SideMetadataSpec) -> bool {
    // [oa, oa+sa) and [ob, ob+sb) intersect (sizes are >= 1)
    a.offset < b.offset + range_size(b) && b.offset < a.offset + range_size(a)
}

#[kani::proof]
#[kani::stub(mmtk::util::metadata::side_metadata::global_side_metadata_base_address, stub_sym_base)]
#[kani::stub(alloc::fmt::format, stub_format)]
fn c25_pair() {
    let global: bool = kani::any();
    let a = any_wf_spec("a", global);
    let b = any_wf_spec("b", global);
    unsafe { SYM_BASE = kani::any() };
    kani::assume(unsafe { SYM_BASE } <= (1usize << 62));
    assert!(hp::metadata_address_range_size(&a) == range_size(&a), "C25.range_size.oracle_agrees");
    let r = sn::verify_no_overlap_contiguous(&a, &b);
    let is_err = r.is_err();
    std::mem::forget(r); // the io::Error's drop glue is not part of the property
    if overlap(&a, &b) {
        assert!(is_err, "C25.pair.overlap_rejected");
    } else {
        assert!(!is_err, "C25.pair.disjoint_accepted");
    }
    kani::cover!(overlap(&a, &b) && a.offset != b.offset, "C25.cover.partial_overlap");
    kani::cover!(!overlap(&a, &b) && a.offset > b.offset, "C25.cover.disjoint_a_above");
    kani::cover!(a.offset + range_size(&a) == b.offset, "C25.cover.adjacent");
}

/// `verify_global_specs` on every slice of up to 3 well-formed global specs: Err iff (total size exceeds the
/// global bound) or (two *different* specs overlap). The pair predicate is the quantified part (c25_pair).
/// The contract of `verify_no_overlap_contiguous` as proved by `c25_pair` (Err <=> ranges intersect), used to
/// check `verify_global_specs` modularly (io::Result is not `Arbitrary`, so `stub_verified` cannot be used).
fn pair_contract(a: &SideMetadataSpec, b: &SideMetadataSpec) -> std::io::Result<()> {
    if overlap(a, b) {
        Err(std::io::Error::from(std::io::ErrorKind::InvalidInput))
    } else {
        Ok(())
    }
}

fn check_global_specs(maxn: usize) {
    let specs = [any_wf_spec("a", true), any_wf_spec("b", true), any_wf_spec("c", true)];
    let n: usize = kani::any();
    kani::assume(n <= maxn);
    unsafe { SYM_BASE = kani::any() };
    kani::assume(unsafe { SYM_BASE } <= (1usize << 62));
    let sl = &specs[..n];
    let r = sn::verify_global_specs(sl);
    let is_err = r.is_err();
    std::mem::forget(r);
    let mut total = 0usize;
    let mut any_overlap = false;
    let mut i = 0;
    while i < n {
        total += range_size(&specs[i]);
        let mut j = 0;
        while j < n {
            if i != j && overlap(&specs[i], &specs[j]) {
                any_overlap = true;
            }
            j += 1;
        }
        i += 1;
    }
    // LOG_GLOBAL_SIDE_METADATA_WORST_CASE_RATIO = 1 on 64-bit
    let too_big = total > (1usize << (LOG_ARCH - 1));
    assert!(is_err == (too_big || any_overlap), "C25.global_specs.err_iff_too_big_or_overlap");
    kani::cover!(n == maxn && !is_err, "C25.cover.max_len_ok");
    kani::cover!(n == maxn && !too_big && is_err, "C25.cover.max_len_overlap");
    kani::cover!(too_big && !any_overlap, "C25.cover.too_big_only");
}

#[kani::proof]
#[kani::unwind(8)]
#[kani::stub(mmtk::util::metadata::side_metadata::global_side_metadata_base_address, stub_sym_base)]
#[kani::stub(alloc::fmt::format, stub_format)]
#[kani::stub(mmtk::util::metadata::side_metadata::sanity::verify_no_overlap_contiguous, pair_contract)]
fn c25_global_specs() {
    check_global_specs(2);
}

#[kani::proof]
#[kani::unwind(8)]
#[kani::stub(mmtk::util::metadata::side_metadata::global_side_metadata_base_address, stub_sym_base)]
#[kani::stub(alloc::fmt::format, stub_format)]
#[kani::stub(mmtk::util::metadata::side_metadata::sanity::verify_no_overlap_contiguous, pair_contract)]
fn c25_global_specs_deep() {
    check_global_specs(3);
}

/// Per-spec size limit for local specs (64-bit): Err iff some spec's range exceeds 2^(47-1).
#[kani::proof]
#[kani::unwind(4)]
#[kani::stub(alloc::fmt::format, stub_format)]
fn c25_local_specs_size() {
    let specs = [any_wf_spec("a", false), any_wf_spec("b", false)];
    let n: usize = kani::any();
    kani::assume(n <= 2);
    let r = sn::verify_local_specs_size(&specs[..n]);
    let is_err = r.is_err();
    std::mem::forget(r);
    let lim = 1usize << (LOG_ARCH - 1);
    let too_big = (n >= 1 && range_size(&specs[0]) > lim) || (n >= 2 && range_size(&specs[1]) > lim);
    assert!(is_err == too_big, "C25.local_specs_size.err_iff_too_big");
    kani::cover!(too_big, "C25.cover.local_too_big");
}
