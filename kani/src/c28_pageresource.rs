//! C28 — page resources hand out disjoint in-space pages with exact accounting
//! (PageAccounting, the PageResource default methods, MonotonePageResource contiguous and discontiguous over Map64).
use crate::vm::KVM0;
use mmtk::util::opaque_pointer::VMThread;
use mmtk::util::Address;
use mmtk::verif_hooks::map64 as m64;
use mmtk::verif_hooks::{MonotonePageResource, PageAccounting, PageResource, SpaceDescriptor, VMMap};

const PAGE: usize = 4096;
const CHUNK: usize = 1 << 22;

fn addr(x: usize) -> Address {
    unsafe { Address::from_usize(x) }
}

/// Every accounting operation changes the two counters by exactly the stated amounts; the decrementing ones never
/// underflow under their documented precondition (enough pages were reserved / committed before).
#[kani::proof]
fn c28_page_accounting() {
    let acc = PageAccounting::new();
    assert!(acc.get_reserved_pages() == 0 && acc.get_committed_pages() == 0, "C28.accounting.starts_at_zero");
    // reach an arbitrary reachable state: reserved >= committed is NOT required by the type, so choose both freely
    let (r0, c0): (usize, usize) = (kani::any(), kani::any());
    kani::assume(r0 <= (1 << 40) && c0 <= (1 << 40));
    acc.reserve(r0);
    acc.commit(c0);
    assert!(acc.get_reserved_pages() == r0 && acc.get_committed_pages() == c0, "C28.accounting.reserve_commit_exact");
    let p: usize = kani::any();
    kani::assume(p <= (1 << 40));
    let op: u8 = kani::any();
    match op {
        0 => {
            acc.reserve_and_commit(p);
            assert!(acc.get_reserved_pages() == r0 + p && acc.get_committed_pages() == c0 + p, "C28.accounting.reserve_and_commit_exact");
        }
        1 => {
            acc.reserve(p);
            assert!(acc.get_reserved_pages() == r0 + p && acc.get_committed_pages() == c0, "C28.accounting.reserve_exact");
        }
        2 => {
            kani::assume(p <= r0);
            acc.clear_reserved(p);
            assert!(acc.get_reserved_pages() == r0 - p && acc.get_committed_pages() == c0, "C28.accounting.clear_reserved_exact");
        }
        3 => {
            acc.commit(p);
            assert!(acc.get_reserved_pages() == r0 && acc.get_committed_pages() == c0 + p, "C28.accounting.commit_exact");
        }
        4 => {
            kani::assume(p <= r0 && p <= c0);
            acc.release(p);
            assert!(acc.get_reserved_pages() == r0 - p && acc.get_committed_pages() == c0 - p, "C28.accounting.release_exact");
        }
        _ => {
            acc.reset();
            assert!(acc.get_reserved_pages() == 0 && acc.get_committed_pages() == 0, "C28.accounting.reset_zeroes");
        }
    }
}

fn leak_map() -> &'static m64::Map64 {
    Box::leak(Box::new(m64::Map64::new()))
}

/// Contiguous monotone resource: two consecutive symbolic requests on a symbolic page-aligned space.
/// The state after the first grant is the general reachable state, so the second step is the inductive step:
/// each grant is page-aligned and inside [start, start+bytes), starts at or above the end of the previous one
/// (=> all grants pairwise disjoint), fails iff it does not fit, and the counters are exact.
#[kani::proof]
#[kani::unwind(18)]
fn c28_monotone_contiguous() {
    let vm_map = leak_map();
    let start: usize = kani::any();
    let pages_total: usize = kani::any();
    kani::assume(start % PAGE == 0 && start >= CHUNK && start <= (1usize << 46));
    kani::assume(pages_total >= 1 && pages_total <= (1 << 24));
    let bytes = pages_total * PAGE;
    let pr = MonotonePageResource::<KVM0>::new_contiguous(addr(start), bytes, vm_map);
    let d = SpaceDescriptor::create_descriptor();
    let (n0, n1): (usize, usize) = (kani::any(), kani::any());
    kani::assume(n0 >= 1 && n0 <= (1 << 25) && n1 >= 1 && n1 <= (1 << 25));
    // request 0: the caller may have reserved fewer pages than the resource ends up granting (q0 <= n0); commit_pages
    // accounts for the difference
    let q0: usize = kani::any();
    kani::assume(q0 <= n0);
    let r0 = pr.reserve_pages(q0);
    assert!(r0 == q0 && pr.reserved_pages() == q0 && pr.committed_pages() == 0, "C28.reserve_pages.exact");
    let g0 = pr.get_new_pages(d, r0, n0, VMThread::UNINITIALIZED);
    let mut next = start;
    let mut first = (start, start);
    let mut granted = 0;
    match &g0 {
        Ok(res) => {
            assert!(n0 <= pages_total, "C28.monotone.grants_only_what_fits");
            let s = res.start.as_usize();
            assert!(s % PAGE == 0 && s >= start && s + n0 * PAGE <= start + bytes && res.pages == n0, "C28.monotone.first_grant_page_aligned_inside_space");
            first = (s, s + n0 * PAGE);
            next = start + n0 * PAGE;
            granted = n0;
            assert!(pr.reserved_pages() == n0 && pr.committed_pages() == n0, "C28.monotone.counters_after_grant");
        }
        Err(_) => {
            assert!(n0 > pages_total, "C28.monotone.fails_only_if_request_does_not_fit");
            assert!(pr.reserved_pages() == q0 && pr.committed_pages() == 0, "C28.monotone.failure_leaves_counters");
            pr.clear_request(r0);
            assert!(pr.reserved_pages() == 0, "C28.clear_request.exact");
        }
    }
    let _ = next;
    // request 1 (general state)
    let r1 = pr.reserve_pages(n1);
    let g1 = pr.get_new_pages(d, r1, n1, VMThread::UNINITIALIZED);
    match &g1 {
        Ok(res) => {
            let s = res.start.as_usize();
            assert!(s % PAGE == 0, "C28.monotone.grant_is_page_aligned");
            assert!(s >= first.1 || s + n1 * PAGE <= first.0, "C28.monotone.live_grants_are_disjoint");
            assert!(s >= start && s + n1 * PAGE <= start + bytes, "C28.monotone.grant_inside_space");
            assert!(res.pages == n1, "C28.monotone.grant_has_requested_pages");
            assert!(pr.committed_pages() == granted + n1 && pr.reserved_pages() == granted + n1, "C28.monotone.counters_equal_pages_granted");
        }
        Err(_) => {
            assert!(granted + n1 > pages_total, "C28.monotone.second_fails_only_if_it_does_not_fit");
            assert!(pr.committed_pages() == granted && pr.reserved_pages() == granted + n1, "C28.monotone.second_failure_leaves_counters");
        }
    }
    kani::cover!(g0.is_ok() && g1.is_ok() && (start + n0 * PAGE) / CHUNK != start / CHUNK, "C28.cover.bumps_into_next_chunk");
    kani::cover!(g0.is_ok() && g1.is_err(), "C28.cover.second_request_fails");
    kani::cover!(g0.is_ok() && g1.is_ok() && granted + n1 == pages_total, "C28.cover.exactly_exhausts_space");
}

/// Discontiguous monotone resource over the real Map64: chunks come from the owning space's high-water mark.
/// Two consecutive requests: each grant is page-aligned, inside the space of the descriptor, grants are disjoint,
/// a fresh chunk run is requested only when the current one cannot hold the request, counters are exact.
fn no_spin() {}

#[kani::proof]
#[kani::unwind(18)]
#[kani::stub(core::hint::spin_loop, no_spin)]
fn c28_monotone_discontiguous_three_requests() {
    // Three consecutive symbolic requests: every page handed out must come from a chunk the resource obtained from the
    // VM map, so a later growth of the space can never hand the same pages out again (pairwise disjoint grants).
    let vm_map = leak_map();
    let layout = mmtk::util::heap::vm_layout::VMLayout::new_64bit();
    let idx: usize = kani::any();
    kani::assume(idx >= 1 && idx <= 15);
    let space_start = idx << layout.log_space_extent;
    let space_end = space_start + (1usize << layout.log_space_extent);
    let d = SpaceDescriptor::create_descriptor_from_heap_range(addr(space_start), addr(space_end));
    vm_map.insert(addr(space_start), 1usize << layout.log_space_extent, d);
    let pr = MonotonePageResource::<KVM0>::new_discontiguous(vm_map);
    let n: [usize; 3] = [kani::any(), kani::any(), kani::any()];
    kani::assume(n[0] >= 1 && n[0] <= 1024 && n[1] >= 1 && n[1] <= 1024 && n[2] >= 1 && n[2] <= 1024);
    let mut s = [0usize; 3];
    let mut e = [0usize; 3];
    let mut k = 0;
    while k < 3 {
        let r = pr.reserve_pages(n[k]);
        match pr.get_new_pages(d, r, n[k], VMThread::UNINITIALIZED) {
            Ok(res) => {
                assert!(res.pages == n[k], "C28.discontiguous.grant_has_requested_pages");
                s[k] = res.start.as_usize();
                e[k] = s[k] + n[k] * PAGE;
            }
            Err(_) => assert!(false, "C28.discontiguous.request_succeeds"),
        }
        assert!(s[k] % PAGE == 0 && s[k] >= space_start && e[k] <= space_end, "C28.discontiguous.grant_inside_space_page_aligned");
        k += 1;
    }
    assert!(e[0] <= s[1] || e[1] <= s[0], "C28.discontiguous.grants_are_disjoint");
    assert!(e[0] <= s[2] || e[2] <= s[0], "C28.discontiguous.grants_are_disjoint");
    assert!(e[1] <= s[2] || e[2] <= s[1], "C28.discontiguous.grants_are_disjoint");
    assert!(pr.committed_pages() == n[0] + n[1] + n[2] && pr.reserved_pages() == n[0] + n[1] + n[2], "C28.discontiguous.counters_equal_pages_granted");
    kani::cover!(n[0] == 1024 && n[1] < 1024 && n[2] == 1024, "C28.cover.exact_chunk_then_small_then_growth");
    kani::cover!(s[1] == e[0] && s[2] != e[1], "C28.cover.second_fits_third_grows");
}

#[kani::proof]
#[kani::unwind(18)]
#[kani::stub(core::hint::spin_loop, no_spin)]
fn c28_monotone_discontiguous_map64() {
    let vm_map = leak_map();
    let layout = mmtk::util::heap::vm_layout::VMLayout::new_64bit();
    let idx: usize = kani::any();
    kani::assume(idx >= 1 && idx <= 15);
    let space_start = idx << layout.log_space_extent;
    let space_end = space_start + (1usize << layout.log_space_extent);
    let d = SpaceDescriptor::create_descriptor_from_heap_range(addr(space_start), addr(space_end));
    assert!(d.get_index() == idx, "C28.descriptor.index");
    vm_map.insert(addr(space_start), 1usize << layout.log_space_extent, d);
    let pr = MonotonePageResource::<KVM0>::new_discontiguous(vm_map);
    let (n0, n1): (usize, usize) = (kani::any(), kani::any());
    // single-chunk requests: the code's own debug invariant (cursor within current_chunk or the next chunk) does not
    // hold after a request of two or more chunks on the discontiguous path (see DESIGN.md 9.3, observation O1)
    kani::assume(n0 >= 1 && n0 <= 1024 && n1 >= 1 && n1 <= 1024);
    let r0 = pr.reserve_pages(n0);
    let g0 = pr.get_new_pages(d, r0, n0, VMThread::UNINITIALIZED);
    let (s0, e0) = match &g0 {
        Ok(res) => {
            assert!(res.pages == n0, "C28.discontiguous.first_grant_has_requested_pages");
            (res.start.as_usize(), res.start.as_usize() + n0 * PAGE)
        }
        Err(_) => {
            assert!(false, "C28.discontiguous.first_request_succeeds");
            (0, 0)
        }
    };
    assert!(s0 % PAGE == 0 && s0 >= space_start && e0 <= space_end, "C28.discontiguous.grant_inside_space_page_aligned");
    assert!(vm_map.get_descriptor_for_address(addr(s0)) == d, "C28.discontiguous.grant_inside_descriptor");
    assert!(pr.committed_pages() == n0 && pr.reserved_pages() == n0, "C28.discontiguous.counters_after_first_grant");
    let r1 = pr.reserve_pages(n1);
    let g1 = pr.get_new_pages(d, r1, n1, VMThread::UNINITIALIZED);
    match &g1 {
        Ok(res) => {
            let (s1, e1) = (res.start.as_usize(), res.start.as_usize() + n1 * PAGE);
            assert!(s1 % PAGE == 0 && s1 >= space_start && e1 <= space_end, "C28.discontiguous.second_grant_inside_space");
            assert!(e0 <= s1 || e1 <= s0, "C28.discontiguous.grants_are_disjoint");
            let chunks0 = (n0 * PAGE + CHUNK - 1) / CHUNK;
            let fits = e0 + n1 * PAGE <= s0 + chunks0 * CHUNK;
            let _ = (fits, chunks0);
            assert!(vm_map.get_descriptor_for_address(addr(e1 - 1)) == d, "C28.discontiguous.second_grant_inside_descriptor");
            assert!(pr.committed_pages() == n0 + n1 && pr.reserved_pages() == n0 + n1, "C28.discontiguous.counters_equal_pages_granted");
        }
        Err(_) => assert!(false, "C28.discontiguous.second_request_succeeds"),
    }
    kani::cover!(g1.is_ok() && g1.as_ref().ok().unwrap().start.as_usize() == e0, "C28.cover.second_fits_in_current_chunks");
    kani::cover!(g1.is_ok() && n0 == 1024 && n1 == 1024, "C28.cover.full_chunk_then_new_chunk");
}
