//! C08 — interior-pointer and conservative lookups resolve to the right object (the VO-bit kernel).
//!
//! The VO-bit table of a 4 KiB data window (64 metadata bytes, symbolic) is relocated into a harness buffer.
//! `is_vo_bit_set_for_addr` is checked for every word-aligned address of the window; `find_object_from_internal_pointer`
//! is checked MODULARLY (find_prev_non_zero_value replaced by its contract, which C22 discharges) for every pointer of
//! the window, every search limit 8..=64 bytes and a symbolic object size. Space dispatch (SFT), LOS's page-wise lookup and addresses outside mapped memory are not covered.
use crate::mmapper::*;
use crate::side::*;
use crate::vm::{ctl, KVM0};
use mmtk::verif_hooks::side_layout::spec_defs::VO_BIT as VO_BIT_SIDE_METADATA_SPEC;
use mmtk::util::Address;
use mmtk::verif_hooks::vo_bit as vo;

const MW: usize = 64;
static mut W_BASE: usize = 0;
static mut W_BIT: usize = 0;

fn addr(x: usize) -> Address {
    unsafe { Address::from_usize(x) }
}
unsafe fn mbit(p: usize) -> bool {
    let b = *((W_BASE + p / 8) as *const u8);
    (b >> (p % 8)) & 1 == 1
}
static mut D0: usize = 0;

/// Contract of `SideMetadataSpec::find_prev_non_zero_value` (for the VO-bit spec) instantiated at the witness word
/// W_BIT: the result is the first non-zero region met walking down from data_addr's region while the region start is
/// >= data_addr - limit + 1; None iff there is none. C22 discharges this specification for the fast path (modular,
/// 64-byte table window), for the region-by-region path (<= 10 regions) and hence for their debug cross-check.
unsafe fn contract_find_prev<T: mmtk::util::metadata::MetadataValue>(_spec: &mmtk::util::metadata::side_metadata::SideMetadataSpec, data_addr: Address, limit: usize) -> Option<Address> {
    let p = data_addr.as_usize();
    assert!(limit > 0 && p >= D0 + 64 && p < D0 + 8 * 8 * MW, "C08.modular.find_prev_called_inside_the_window");
    let lowest = p - (limit - 1).min(p);
    let kp = (p - D0) / 8;
    let w_in = W_BIT <= kp && D0 + 8 * W_BIT >= lowest;
    if kani::any() {
        let q: usize = kani::any();
        kani::assume(q <= kp && D0 + 8 * q >= lowest && D0 + 8 * q >= D0);
        kani::assume(mbit(q));
        kani::assume(!(w_in && W_BIT > q && mbit(W_BIT)));
        Some(Address::from_usize(D0 + 8 * q))
    } else {
        kani::assume(!(w_in && mbit(W_BIT)));
        None
    }
}

/// Place the VO-bit table so that data word `w0 + k` has bit k of `buf`; returns the data address of word w0.
fn place(buf: &mut Bytes<MW>) -> usize {
    let spec = VO_BIT_SIDE_METADATA_SPEC;
    let buf_addr = buf.addr();
    let w0: usize = kani::any(); // index of the first data word of the window
    kani::assume(w0 % 64 == 0 && w0 >= 64 && w0 <= (1usize << 43));
    kani::assume(spec.offset + w0 / 8 <= buf_addr);
    unsafe {
        BASE = buf_addr - spec.offset - w0 / 8;
        W_BASE = buf_addr;
        D0 = w0 << 3;
    }
    w0 << 3
}

fn bitb(img: &[u8; MW], k: usize) -> bool {
    (img[k / 8] >> (k % 8)) & 1 == 1
}

/// is_vo_bit_set_for_addr(a) == Some(a) iff the VO bit of a's word is set, for every word-aligned address.
#[kani::proof]
#[kani::unwind(4)]
#[kani::stub(mmtk::util::metadata::side_metadata::global_side_metadata_base_address, stub_base)]
#[kani::stub(mmtk::util::heap::layout::create_mmapper, stub_create_mmapper)]
fn c08_is_vo_bit_set_for_addr() {
    let mut buf = Bytes::<MW>(kani::any());
    let img = buf.0;
    let d0 = place(&mut buf);
    let k: usize = kani::any();
    kani::assume(k < 8 * MW);
    let a = d0 + 8 * k;
    match vo::is_vo_bit_set_for_addr(addr(a)) {
        Some(o) => {
            assert!(o.to_raw_address().as_usize() == a, "C08.is_vo_bit_set_for_addr.returns_the_address_itself");
            assert!(bitb(&img, k), "C08.is_vo_bit_set_for_addr.some_only_if_bit_set");
        }
        None => assert!(!bitb(&img, k), "C08.is_vo_bit_set_for_addr.none_only_if_bit_clear"),
    }
    let i: usize = kani::any();
    kani::assume(i < MW);
    assert!(buf.0[i] == img[i], "C08.is_vo_bit_set_for_addr.does_not_write");
    std::mem::forget(buf);
}

/// find_object_from_internal_pointer(p, n): Some(o) iff o is the highest valid-object address with p - n < o <= p
/// and p lies inside o (p < start(o) + size(o)); None otherwise. Never panics inside the window.
#[kani::proof]
#[kani::unwind(12)]
#[kani::stub(mmtk::util::metadata::side_metadata::global_side_metadata_base_address, stub_base)]
#[kani::stub(mmtk::util::heap::layout::create_mmapper, stub_create_mmapper)]
#[kani::stub(mmtk::util::metadata::side_metadata::SideMetadataSpec::find_prev_non_zero_value, contract_find_prev)]
fn c08_find_object_from_internal_pointer() {
    let mut buf = Bytes::<MW>(kani::any());
    let img = buf.0;
    let d0 = place(&mut buf);
    let j: usize = kani::any(); // witness word
    kani::assume(j < 8 * MW);
    unsafe { W_BIT = j };
    let p: usize = kani::any();
    let n: usize = kani::any();
    kani::assume(p >= d0 + 64 && p < d0 + 8 * 8 * MW);
    // limits from one word (so that p's own word start is inside the range, see the C22 known finding) to 64 bytes
    kani::assume(n >= 8 && n <= 64);
    let size: usize = kani::any();
    kani::assume(size >= 8 && size <= 4096);
    ctl::set_current_size(size);
    let lowest = p - (n - 1);
    let kp = (p - d0) / 8; // word index of p
    let j_in = j <= kp && d0 + 8 * j >= lowest;
    let r = vo::find_object_from_internal_pointer::<KVM0>(addr(p), n);
    match r {
        Some(o) => {
            let o = o.to_raw_address().as_usize();
            assert!(o % 8 == 0 && o <= p && o >= lowest, "C08.find_object.candidate_is_at_most_n_bytes_below_p");
            let q = (o - d0) / 8;
            assert!(bitb(&img, q), "C08.find_object.result_is_a_valid_object");
            assert!(!(j_in && j > q && bitb(&img, j)), "C08.find_object.result_is_the_nearest_object_at_or_below_p");
            assert!(p < o + size, "C08.find_object.p_lies_inside_the_object");
        }
        None => {
            // either no valid object in range, or the nearest one does not reach p
            if j_in && bitb(&img, j) {
                // j is a valid object in range: then the nearest one (at or above j) must fail the size test,
                // in particular j itself cannot both be the nearest and contain p
                assert!(!(d0 + 8 * j + size > p && !higher_set(&img, j, kp)), "C08.find_object.none_only_if_no_object_in_range_contains_p");
            }
        }
    }
    let i: usize = kani::any();
    kani::assume(i < MW);
    assert!(buf.0[i] == img[i], "C08.find_object.does_not_write");
    kani::cover!(r.is_some() && r.unwrap().to_raw_address().as_usize() + 40 <= p, "C08.cover.interior_pointer_far_inside_object");
    kani::cover!(r.is_none() && j_in && bitb(&img, j), "C08.cover.object_too_small_to_contain_p");
    kani::cover!(r.is_some() && r.unwrap().to_raw_address().as_usize() == p, "C08.cover.exact_reference");
    std::mem::forget(buf);
}

/// Is any VO bit set strictly above word j and at or below word kp? (at most 8 words: n <= 64)
fn higher_set(img: &[u8; MW], j: usize, kp: usize) -> bool {
    let mut any = false;
    let mut k = j + 1;
    let mut steps = 0;
    while k <= kp && steps < 9 {
        any = any || bitb(img, k);
        k += 1;
        steps += 1;
    }
    any
}
