//! C33 — alignment and size arithmetic meet their specifications.
use crate::vm::KVM;
use mmtk::util::constants::*;
use mmtk::util::conversions::*;
use mmtk::util::heap::vm_layout::{BYTES_IN_CHUNK, LOG_BYTES_IN_CHUNK};
use mmtk::util::Address;
use mmtk::verif_contracts::align as ct;
use mmtk::verif_hooks as hk;

fn addr(x: usize) -> Address {
    unsafe { Address::from_usize(x) }
}

// ---- contract proofs (function against its in-place contract) ----

#[kani::proof_for_contract(mmtk::util::conversions::raw_align_up)]
fn c33_contract_raw_align_up() {
    raw_align_up(kani::any(), kani::any());
}
#[kani::proof_for_contract(mmtk::util::conversions::raw_align_down)]
fn c33_contract_raw_align_down() {
    raw_align_down(kani::any(), kani::any());
}
#[kani::proof_for_contract(mmtk::util::conversions::raw_is_aligned)]
fn c33_contract_raw_is_aligned() {
    raw_is_aligned(kani::any(), kani::any());
}
#[kani::proof_for_contract(mmtk::util::conversions::rshift_align_up)]
fn c33_contract_rshift_align_up() {
    rshift_align_up(kani::any(), kani::any());
}

// ---- replayable twins (same predicates, body inlined, named assertions) ----

#[kani::proof]
fn c33_raw_align() {
    let val: usize = kani::any();
    let align: usize = kani::any();
    kani::assume(ct::pre_raw_align_down(val, align));
    let d = raw_align_down(val, align);
    assert!(ct::post_raw_align_down(val, align, d), "C33.raw_align_down.post");
    let a = raw_is_aligned(val, align);
    assert!(ct::post_raw_is_aligned(val, align, a), "C33.raw_is_aligned.post");
    assert!(a == (d == val), "C33.raw_is_aligned.agrees_with_align_down");
    if ct::pre_raw_align_up(val, align) {
        let u = raw_align_up(val, align);
        assert!(ct::post_raw_align_up(val, align, u), "C33.raw_align_up.post");
        assert!(a == (u == val), "C33.raw_align_up.identity_iff_aligned");
        kani::cover!(u != val && align > 1, "C33.cover.align_up_moves");
        kani::cover!(val > usize::MAX - 4096 && align == 4096, "C33.cover.align_up_near_max");
    }
    kani::cover!(!a && align == 1 << 63, "C33.cover.max_align");
}

#[kani::proof]
fn c33_rshift_align_up() {
    let num: usize = kani::any();
    let bits: usize = kani::any();
    kani::assume(ct::pre_rshift_align_up(num, bits));
    let r = rshift_align_up(num, bits);
    assert!(ct::post_rshift_align_up(num, bits, r), "C33.rshift_align_up.post");
    kani::cover!(bits == 63 && num > 1, "C33.cover.rshift_63");
    kani::cover!(bits == 0, "C33.cover.rshift_0");
}

/// Callers verified against the callee *contracts* (modular step).
#[kani::proof]
#[kani::stub_verified(mmtk::util::conversions::raw_align_up)]
fn c33_bytes_to_pages_up() {
    let bytes: usize = kani::any();
    kani::assume(bytes <= usize::MAX - (BYTES_IN_PAGE - 1));
    let p = bytes_to_pages_up(bytes);
    // p = ceil(bytes / 4096)
    assert!(p <= usize::MAX >> LOG_BYTES_IN_PAGE, "C33.bytes_to_pages_up.range");
    assert!(pages_to_bytes(p) >= bytes, "C33.bytes_to_pages_up.covers");
    assert!(pages_to_bytes(p) - bytes < BYTES_IN_PAGE, "C33.bytes_to_pages_up.least");
    kani::cover!(bytes % BYTES_IN_PAGE != 0, "C33.cover.pages_partial");
}

#[kani::proof]
fn c33_pages_to_bytes() {
    let pages: usize = kani::any();
    kani::assume(pages <= usize::MAX >> LOG_BYTES_IN_PAGE);
    let b = pages_to_bytes(pages);
    assert!(b >> LOG_BYTES_IN_PAGE == pages && b & (BYTES_IN_PAGE - 1) == 0, "C33.pages_to_bytes.post");
    assert!(bytes_to_pages_up(b) == pages, "C33.pages_bytes.roundtrip");
}

#[kani::proof]
fn c33_chunks() {
    let x: usize = kani::any();
    if x <= usize::MAX - BYTES_IN_CHUNK {
        let c = bytes_to_chunks_up(x);
        assert!(c <= usize::MAX >> LOG_BYTES_IN_CHUNK, "C33.bytes_to_chunks_up.range");
        assert!((c << LOG_BYTES_IN_CHUNK) >= x && (c << LOG_BYTES_IN_CHUNK) - x < BYTES_IN_CHUNK, "C33.bytes_to_chunks_up.post");
        let u = chunk_align_up(addr(x));
        assert!(ct::post_raw_align_up(x, BYTES_IN_CHUNK, u.as_usize()), "C33.chunk_align_up.post");
    }
    let d = chunk_align_down(addr(x));
    assert!(ct::post_raw_align_down(x, BYTES_IN_CHUNK, d.as_usize()), "C33.chunk_align_down.post");
    let i = address_to_chunk_index(addr(x));
    assert!(chunk_index_to_address(i) == d, "C33.chunk_index.roundtrip_down");
    assert!(address_to_chunk_index(chunk_index_to_address(i)) == i, "C33.chunk_index.inverse");
    kani::cover!(d.as_usize() != x, "C33.cover.chunk_unaligned");
}

#[kani::proof]
fn c33_address_align() {
    let x: usize = kani::any();
    let align: usize = kani::any();
    kani::assume(align.is_power_of_two());
    let a = addr(x);
    assert!(a.align_down(align).as_usize() == raw_align_down(x, align), "C33.Address.align_down");
    assert!(a.is_aligned_to(align) == raw_is_aligned(x, align), "C33.Address.is_aligned_to");
    if ct::pre_raw_align_up(x, align) {
        assert!(ct::post_raw_align_up(x, align, a.align_up(align).as_usize()), "C33.Address.align_up");
    }
}

// ---- align_allocation / get_maximum_aligned_size for each alignment variant of the binding ----

fn check_align_allocation<const MINA: usize, const MAXA: usize>() {
    type VM<const A: usize, const B: usize> = KVM<A, B, 0>;
    let region: usize = kani::any();
    let alignment: usize = kani::any();
    let offset: usize = kani::any();
    let known: usize = kani::any();
    // the function's own debug_assert!s, as preconditions
    kani::assume(alignment.is_power_of_two() && alignment >= MINA && alignment <= MAXA);
    kani::assume(offset & (MINA - 1) == 0);
    kani::assume(known.is_power_of_two() && known >= MINA && known <= MAXA);
    kani::assume(region & (known - 1) == 0);
    // no caller passes known > MIN_ALIGNMENT; for such a call the offset must be a multiple of it
    kani::assume(offset & (known - 1) == 0);
    // `Address + isize` is a signed add: addresses live in the lower half of the address space
    kani::assume(region < (1usize << 63) - alignment);
    // offsets are small relative to the address space (isize cast must not change the value)
    kani::assume(offset <= isize::MAX as usize);
    let r = hk::align_allocation_inner::<VM<MINA, MAXA>>(addr(region), alignment, offset, known, false)
        .as_usize();
    assert!(r >= region, "C33.align_allocation.ge_region");
    assert!(r.wrapping_add(offset) & (alignment - 1) == 0, "C33.align_allocation.aligned");
    assert!(r - region < alignment, "C33.align_allocation.least");
    if region.wrapping_add(offset) & (alignment - 1) == 0 {
        assert!(r == region, "C33.align_allocation.identity_when_aligned");
    }
    // padded size bound
    let size: usize = kani::any();
    kani::assume(size & (known - 1) == 0 && size <= (1usize << 62));
    let max = hk::get_maximum_aligned_size_inner::<VM<MINA, MAXA>>(size, alignment, known);
    assert!(r - region + size <= max, "C33.get_maximum_aligned_size.bounds_padding");
    assert!(max < size + alignment, "C33.get_maximum_aligned_size.tight");
    kani::cover!(MAXA == MINA || r != region, "C33.cover.alloc_padding");
    kani::cover!(MAXA == MINA || (r - region + size == max && alignment > known), "C33.cover.alloc_worst_case");
    kani::cover!(offset != 0 && (MAXA == MINA || r != region), "C33.cover.alloc_offset");
    if known == MINA {
        let r2 = hk::align_allocation_no_fill::<VM<MINA, MAXA>>(addr(region), alignment, offset);
        assert!(r2.as_usize() == r, "C33.align_allocation_no_fill.same");
        assert!(hk::get_maximum_aligned_size::<VM<MINA, MAXA>>(size, alignment) == max, "C33.get_maximum_aligned_size.same");
    }
}

#[kani::proof]
fn c33_align_allocation_4_8() {
    check_align_allocation::<4, 8>();
}
#[kani::proof]
fn c33_align_allocation_8_64() {
    check_align_allocation::<8, 64>();
}
#[kani::proof]
fn c33_align_allocation_4_16() {
    check_align_allocation::<4, 16>();
}
#[kani::proof]
fn c33_align_allocation_8_8() {
    check_align_allocation::<8, 8>();
}

/// `align_allocation` with gap filling: same result, and exactly the gap bytes are written.
#[kani::proof]
fn c33_align_allocation_fill() {
    type VM = KVM<4, 16, 0>;
    let orig: [u8; 48] = kani::any();
    let mut buf = orig;
    let base = Address::from_mut_ptr(buf.as_mut_ptr()).as_usize();
    let start: usize = kani::any();
    kani::assume(start < 16 && (base + start) & 3 == 0);
    let region = base + start;
    let alignment: usize = kani::any();
    kani::assume(alignment == 4 || alignment == 8 || alignment == 16);
    let offset: usize = kani::any();
    kani::assume(offset & 3 == 0 && offset <= 1024);
    let r = hk::align_allocation::<VM>(addr(region), alignment, offset).as_usize();
    let r0 = hk::align_allocation_no_fill::<VM>(addr(region), alignment, offset).as_usize();
    assert!(r == r0, "C33.align_allocation.fill_same_result");
    let j: usize = kani::any();
    kani::assume(j < 48);
    if base + j >= region && base + j < r {
        assert!(buf[j] == <VM as mmtk::vm::VMBinding>::ALIGNMENT_VALUE, "C33.align_allocation.gap_filled");
    } else {
        assert!(buf[j] == orig[j], "C33.align_allocation.fill_frame");
    }
    kani::cover!(r - region == 12, "C33.cover.fill_12");
}
