//! C27 — a raw-memory free list can grow to its configured maximum.
//!
//! `RawMemoryFreeList::mmap` (the OS call) is replaced by a recorder; the table memory is a zeroed harness buffer
//! (mmap hands out zeroed pages). Everything else is the real code.
use mmtk::util::os::MmapStrategy;
use mmtk::util::Address;
use mmtk::verif_hooks::freelist::raw;
use mmtk::verif_hooks::freelist::{FreeList, RawMemoryFreeList, FAILURE, MAX_UNITS};

const PAGE: usize = 4096;

static mut MAP_START: [usize; 4] = [0; 4];
static mut MAP_BYTES: [usize; 4] = [0; 4];
static mut N_MAPS: usize = 0;

fn stub_mmap(_l: &RawMemoryFreeList, start: Address, bytes: usize) {
    unsafe {
        if N_MAPS < 4 {
            MAP_START[N_MAPS] = start.as_usize();
            MAP_BYTES[N_MAPS] = bytes;
        }
        N_MAPS += 1;
    }
}

fn addr(x: usize) -> Address {
    unsafe { Address::from_usize(x) }
}

/// raise_high_water, for all (base, limit, pages_per_block, blocks) and two consecutive calls (the state after the
/// first call is the general reachable state base <= high_water <= limit): maps exactly [old_hw, new_hw),
/// new_hw = min(old_hw + blocks * block_bytes, limit), never beyond the limit, no arithmetic failure. Loop-free.
#[kani::proof]
#[kani::stub(mmtk::util::raw_memory_freelist::RawMemoryFreeList::mmap, stub_mmap)]
fn c27_raise_high_water_clamps_at_limit() {
    let base: usize = kani::any();
    let table_pages: usize = kani::any();
    let ppb: i32 = if kani::any() { 16 } else if kani::any() { 3 } else { 1 };
    let (b1, b2): (i32, i32) = (kani::any(), kani::any());
    kani::assume(base % 4 == 0 && base >= PAGE && base <= (1usize << 47));
    kani::assume(table_pages >= 1 && table_pages <= (1 << 20));
    kani::assume(ppb >= 1 && ppb <= 16);
    kani::assume(b1 >= 1 && b1 <= (1 << 16) && b2 >= 1 && b2 <= (1 << 16));
    let limit = base + table_pages * PAGE;
    // units such that the table needs exactly `table_pages` pages (size_in_pages(units, 1) == table_pages)
    let units: i32 = kani::any();
    kani::assume(units >= 1 && units <= MAX_UNITS && RawMemoryFreeList::size_in_pages(units, 1) as usize == table_pages);
    let mut l = RawMemoryFreeList::new(addr(base), addr(limit), ppb, units, units, 1, MmapStrategy::RAW_MEMORY_FREELIST);
    unsafe { N_MAPS = 0 };
    let block_bytes = ppb as usize * PAGE;
    raw::raise_high_water(&mut l, b1);
    let hw1 = raw::high_water(&l).as_usize();
    let want1 = if b1 as usize * block_bytes > limit - base { limit } else { base + b1 as usize * block_bytes };
    assert!(hw1 == want1, "C27.raise_high_water.new_high_water_is_min_of_request_and_limit");
    assert!(unsafe { N_MAPS == 1 && MAP_START[0] == base && MAP_BYTES[0] == hw1 - base }, "C27.raise_high_water.maps_exactly_the_growth");
    if hw1 < limit {
        raw::raise_high_water(&mut l, b2);
        let hw2 = raw::high_water(&l).as_usize();
        let want2 = if b2 as usize * block_bytes > limit - hw1 { limit } else { hw1 + b2 as usize * block_bytes };
        assert!(hw2 == want2, "C27.raise_high_water.second_growth_is_min_of_request_and_limit");
        assert!(hw2 <= limit, "C27.raise_high_water.never_beyond_limit");
        assert!(unsafe { N_MAPS == 2 && MAP_START[1] == hw1 && MAP_BYTES[1] == hw2 - hw1 }, "C27.raise_high_water.second_map_is_contiguous");
        kani::cover!(hw2 == limit && hw1 + b2 as usize * block_bytes > limit, "C27.cover.last_block_is_partial");
    }
    kani::cover!(hw1 == limit && table_pages % (ppb as usize) != 0, "C27.cover.first_raise_clamped");
    std::mem::forget(l);
}

#[repr(C, align(4096))]
struct Table([i32; 3 * 1024]);

/// Growth to the configured maximum when the table size (3 pages) is not a multiple of the block size (2 pages):
/// one concrete scenario (max_units = 1534, k1 = 1022: the second growth needs the partial last block) run on a real table, both grow_freelist calls succeed, the
/// list ends with current_units == max_units, mapped memory is [base, limit) at most, contiguous from base, and
/// every unit is usable: the two runs can be allocated, are disjoint and cover [0, max_units).
#[kani::proof]
#[kani::unwind(5)]
#[kani::stub(mmtk::util::raw_memory_freelist::RawMemoryFreeList::mmap, stub_mmap)]
fn c27_grow_to_max_partial_last_block_deep() {
    let mut table = Table([0; 3 * 1024]);
    let base = Address::from_mut_ptr(table.0.as_mut_ptr());
    // sampled parameters: the smallest and the largest max_units whose table needs 3 pages
    let units: i32 = 1534;
    assert!(RawMemoryFreeList::size_in_pages(units, 1) == 3, "C27.size_in_pages.three_pages");
    let limit = base + 3 * PAGE;
    let mut l = RawMemoryFreeList::new(base, limit, 2, units, units, 1, MmapStrategy::RAW_MEMORY_FREELIST);
    unsafe { N_MAPS = 0 };
    // sampled first steps: one unit, exactly the capacity of the first (whole) block, one more than that, all but one
    let k1: i32 = 1022;
    let k2 = units - k1;
    assert!(l.grow_freelist(k1), "C27.grow_freelist.first_growth_succeeds");
    assert!(raw::current_units(&l) == k1, "C27.grow_freelist.current_units_after_first_growth");
    assert!(l.grow_freelist(k2), "C27.grow_freelist.growth_to_max_units_succeeds");
    assert!(raw::current_units(&l) == units, "C27.grow_freelist.reaches_max_units");
    assert!(raw::high_water(&l) <= limit, "C27.grow_freelist.high_water_within_limit");
    assert!(!l.grow_freelist(1), "C27.grow_freelist.refuses_beyond_max_units");
    unsafe {
        let mut end = base.as_usize();
        let mut i = 0;
        while i < 4 {
            if i < N_MAPS {
                assert!(MAP_START[i] == end, "C27.grow_freelist.maps_are_contiguous_from_base");
                end += MAP_BYTES[i];
            }
            i += 1;
        }
        assert!(N_MAPS <= 4 && end <= limit.as_usize(), "C27.grow_freelist.never_maps_beyond_limit");
    }
    // every unit is usable
    let a = l.alloc(k1);
    let b = l.alloc(k2);
    assert!(a != FAILURE && b != FAILURE, "C27.alloc.all_grown_units_allocatable");
    assert!((a == 0 && b == k1) || (k1 == k2 && a == k1 && b == 0), "C27.alloc.runs_are_the_two_grown_regions");
    assert!(l.size(a) == k1 && l.size(b) == k2, "C27.alloc.sizes");
    assert!(l.alloc(1) == FAILURE, "C27.alloc.nothing_left");
    std::mem::forget(l);
}

/// The block-aligned case (table = 2 blocks of 1 page): same obligations, so that both shapes are covered.
#[kani::proof]
#[kani::unwind(5)]
#[kani::stub(mmtk::util::raw_memory_freelist::RawMemoryFreeList::mmap, stub_mmap)]
fn c27_grow_to_max_whole_blocks_deep() {
    let mut table = Table([0; 3 * 1024]);
    let base = Address::from_mut_ptr(table.0.as_mut_ptr());
    let units: i32 = 1022;
    assert!(RawMemoryFreeList::size_in_pages(units, 1) == 2, "C27.size_in_pages.two_pages");
    let limit = base + 2 * PAGE;
    let mut l = RawMemoryFreeList::new(base, limit, 1, units, units, 1, MmapStrategy::RAW_MEMORY_FREELIST);
    unsafe { N_MAPS = 0 };
    let k1: i32 = 510;
    let k2 = units - k1;
    assert!(l.grow_freelist(k1), "C27.grow_freelist.first_growth_succeeds");
    assert!(l.grow_freelist(k2), "C27.grow_freelist.growth_to_max_units_succeeds");
    assert!(raw::current_units(&l) == units, "C27.grow_freelist.reaches_max_units");
    assert!(raw::high_water(&l) <= limit, "C27.grow_freelist.high_water_within_limit");
    assert!(raw::current_capacity(&l) >= units, "C27.grow_freelist.capacity_covers_max_units");
    // (first fit from the most recently added run: ask for the larger region first so that neither request splits)
    let b = l.alloc(k2);
    let a = l.alloc(k1);
    assert!(a != FAILURE && b != FAILURE, "C27.alloc.all_grown_units_allocatable");
    assert!(a == 0 && b == k1, "C27.alloc.runs_are_the_two_grown_regions");
    std::mem::forget(l);
}

/// Capacity arithmetic without table memory: after any raise of the high-water mark (general reachable state),
/// current_capacity() is exactly the number of unit slots in the mapped table minus the head sentinels and the bottom
/// sentinel; raising the number of blocks grow_freelist computes for a request makes the capacity cover the request
/// (so its internal consistency assertion holds and growth cannot get stuck below the configured maximum); and a
/// fully mapped table holds max_units. Loop-free, all table sizes up to 2^20 pages; block sizes 1, 2, 3 and 16 pages
/// (a constant divisor keeps the solver fast; 16 is what default_block_size gives every table of >= 16 pages).
fn capacity_covers_growth_requests(ppb: i32) {
    let base: usize = kani::any();
    let heads: i32 = kani::any();
    let units: i32 = kani::any();
    kani::assume(base % 4 == 0 && base >= PAGE && base <= (1usize << 47));
    kani::assume(heads >= 1 && heads <= 4);
    kani::assume(units >= 1 && units <= (1 << 27));
    let table_pages = RawMemoryFreeList::size_in_pages(units, heads) as usize;
    kani::assume(table_pages >= ppb as usize); // default_block_size never exceeds the table size
    let limit = base + table_pages * PAGE;
    let mut l = RawMemoryFreeList::new(addr(base), addr(limit), ppb, units, units, heads, MmapStrategy::RAW_MEMORY_FREELIST);
    let upb = raw::units_per_block(&l);
    assert!(upb as usize == ppb as usize * PAGE / 8, "C27.units_per_block.is_block_bytes_over_unit_bytes");
    assert!(raw::units_in_first_block(&l) <= upb - heads - 1, "C27.units_in_first_block.reserves_heads_and_bottom_sentinel");
    assert!(raw::current_capacity(&l) <= -heads - 1, "C27.current_capacity.empty_table_holds_no_unit");
    // reach a general state
    let b1: i32 = kani::any();
    kani::assume(b1 >= 1 && b1 <= (1 << 16));
    raw::raise_high_water(&mut l, b1);
    let hw = raw::high_water(&l).as_usize();
    let mapped_units = ((hw - base) / 8) as i32;
    let cap = raw::current_capacity(&l);
    // never more than the unit slots actually mapped, minus the head sentinels and the bottom sentinel
    assert!(cap <= mapped_units - heads - 1, "C27.current_capacity.never_exceeds_mapped_unit_slots_minus_sentinels");
    // a growth request as grow_freelist computes it
    let required: i32 = kani::any();
    kani::assume(required >= 1 && required <= units);
    if required > cap {
        assert!(hw < limit, "C27.grow.capacity_below_max_implies_table_not_fully_mapped");
        let blocks = (required - cap + upb - 1) / upb;
        raw::raise_high_water(&mut l, blocks);
        assert!(raw::current_capacity(&l) >= required, "C27.grow.requested_blocks_make_capacity_cover_the_request");
        assert!(raw::high_water(&l).as_usize() <= limit, "C27.grow.never_beyond_limit");
    }
    if hw == limit {
        assert!(cap >= units, "C27.current_capacity.fully_mapped_table_holds_max_units");
    }
    // (with 1-page blocks the table is always a whole number of blocks: those two situations cannot occur)
    kani::cover!(ppb == 1 || (hw == limit && table_pages % (ppb as usize) != 0), "C27.cover.capacity_with_partial_last_block");
    kani::cover!(ppb == 1 || (required > cap && hw + ((required - cap + upb - 1) / upb) as usize * ppb as usize * PAGE > limit), "C27.cover.growth_clamped_at_limit");
    kani::cover!(hw == limit && table_pages > 3, "C27.cover.fully_mapped_table");
    kani::cover!(required > cap && heads == 4, "C27.cover.growth_request_beyond_capacity");
    std::mem::forget(l);
}

macro_rules! c27_capacity {
    ($name:ident, $ppb:expr) => {
        #[kani::proof]
        #[kani::stub(mmtk::util::raw_memory_freelist::RawMemoryFreeList::mmap, stub_mmap)]
        fn $name() {
            capacity_covers_growth_requests($ppb);
        }
    };
}
c27_capacity!(c27_capacity_covers_growth_requests_ppb1, 1);
c27_capacity!(c27_capacity_covers_growth_requests_ppb2, 2);
c27_capacity!(c27_capacity_covers_growth_requests_ppb3, 3);
c27_capacity!(c27_capacity_covers_growth_requests_ppb16, 16);
