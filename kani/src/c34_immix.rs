//! C34 — Immix never hands out a line that holds a live object (block-state encoding, line arithmetic, hole search,
//! line marking). The line-mark table of one block (Block::LINES bytes of the IX_LINE_MARK side table) is a fully
//! symbolic harness buffer; the block address is symbolic.
use crate::side::{stub_base, BASE};
use crate::vm::{ctl, KVM0};
use mmtk::util::linear_scan::Region;
use mmtk::util::{Address, ObjectReference};
use mmtk::verif_hooks::immix as ix;
use mmtk::verif_hooks::{Block, BlockState, Line};

const LINES: usize = Block::LINES;
const LOG_LINE: usize = 8;

#[repr(C, align(8))]
struct LineMarks([u8; LINES]);

fn addr(x: usize) -> Address {
    unsafe { Address::from_usize(x) }
}

/// Byte encoding of block states: every byte decodes to a state that encodes back to the same byte, and every state
/// the sweeper can produce (Reusable with 1..LINES-1 unavailable lines) survives encode -> decode.
#[kani::proof]
fn c34_block_state_roundtrip() {
    let b: u8 = kani::any();
    let s: BlockState = b.into();
    assert!(u8::from(s) == b, "C34.block_state.byte_decode_encode_roundtrip");
    let n: u8 = kani::any();
    kani::assume(n >= 1 && (n as usize) < LINES);
    let r = BlockState::Reusable { unavailable_lines: n };
    assert!(BlockState::from(u8::from(r)) == r, "C34.block_state.reusable_encode_decode_roundtrip");
    assert!(BlockState::from(u8::from(BlockState::Unallocated)) == BlockState::Unallocated, "C34.block_state.unallocated_roundtrip");
    assert!(BlockState::from(u8::from(BlockState::Unmarked)) == BlockState::Unmarked, "C34.block_state.unmarked_roundtrip");
    assert!(BlockState::from(u8::from(BlockState::Marked)) == BlockState::Marked, "C34.block_state.marked_roundtrip");
    assert!(r.is_reusable() && !BlockState::Marked.is_reusable() && !BlockState::Unmarked.is_reusable() && !BlockState::Unallocated.is_reusable(), "C34.block_state.is_reusable");
    // the three fixed states and every reusable count are pairwise distinct bytes
    assert!(u8::from(r) != u8::from(BlockState::Unallocated) && u8::from(r) != u8::from(BlockState::Unmarked) && u8::from(r) != u8::from(BlockState::Marked), "C34.block_state.reusable_does_not_collide");
}

/// Line <-> block arithmetic for every line address.
#[kani::proof]
fn c34_line_arithmetic() {
    let l: usize = kani::any();
    kani::assume(l % Line::BYTES == 0 && l >= Block::BYTES && l <= (1usize << 47));
    let line = Line::from_aligned_address(addr(l));
    let block = line.block();
    let i = line.get_index_within_block();
    assert!(block.start().as_usize() % Block::BYTES == 0, "C34.line.block_is_aligned");
    assert!(i < LINES, "C34.line.index_inside_block");
    assert!(block.start().as_usize() + (i << LOG_LINE) == l, "C34.line.block_start_plus_index_is_the_line");
    assert!(block.start().as_usize() <= l && l < block.start().as_usize() + Block::BYTES, "C34.line.block_contains_line");
}

fn place_block(buf: &mut LineMarks) -> usize {
    let spec = Line::MARK_TABLE;
    let b: usize = kani::any();
    kani::assume(b % Block::BYTES == 0 && b >= Block::BYTES && b <= (1usize << 46));
    let buf_addr = Address::from_mut_ptr(buf.0.as_mut_ptr()).as_usize();
    let m0 = b >> LOG_LINE; // one metadata byte per line
    kani::assume(spec.offset + m0 <= buf_addr);
    unsafe { BASE = buf_addr - spec.offset - m0 };
    b
}

/// Hole search: the result is the first maximal run of available lines at/after the cursor, None iff there is none.
/// A line is available iff its mark is neither the current line mark state nor the state of the last full GC.
fn check_hole_search(min_cursor: usize) {
    let mut buf = LineMarks(kani::any());
    let img = buf.0;
    let b = place_block(&mut buf);
    let (ms, us): (u8, u8) = (kani::any(), kani::any());
    kani::assume(ms >= 1 && ms <= Line::MAX_MARK_STATE && us >= 1 && us <= Line::MAX_MARK_STATE);
    let c0: usize = kani::any();
    kani::assume(c0 >= min_cursor && c0 < LINES);
    let avail = |i: usize| img[i] != ms && img[i] != us;
    let j: usize = kani::any();
    kani::assume(j >= c0 && j < LINES);
    let r = ix::get_next_available_lines_with_states::<KVM0>(ms, us, Line::from_aligned_address(addr(b + (c0 << LOG_LINE))));
    match r {
        None => assert!(!avail(j), "C34.hole_search.none_only_if_no_line_is_available"),
        Some((s, e)) => {
            let (s, e) = (s.start().as_usize(), e.start().as_usize());
            assert!(s >= b + (c0 << LOG_LINE) && s < e && e <= b + Block::BYTES, "C34.hole_search.hole_inside_block_after_cursor");
            let (si, ei) = ((s - b) >> LOG_LINE, (e - b) >> LOG_LINE);
            if j < si {
                assert!(!avail(j), "C34.hole_search.no_available_line_skipped");
            } else if j < ei {
                assert!(avail(j), "C34.hole_search.never_returns_a_live_line");
            }
            assert!(ei == LINES || !avail(ei), "C34.hole_search.hole_is_maximal");
        }
    }
    let w: usize = kani::any();
    kani::assume(w < LINES);
    assert!(buf.0[w] == img[w], "C34.hole_search.does_not_write_line_marks");
    kani::cover!(r.is_none() && c0 == min_cursor, "C34.cover.no_hole_after_cursor");
    kani::cover!(r.is_some() && r.unwrap().1.start().as_usize() == b + Block::BYTES, "C34.cover.hole_reaches_block_end");
    kani::cover!(r.is_some() && r.unwrap().0.start().as_usize() > b + (c0 << LOG_LINE) && c0 > 0, "C34.cover.hole_after_live_lines");
    std::mem::forget(buf);
}

/// Quick tier: the search cursor lies in the last 24 lines of the block (the loops then run at most 24 times).
#[kani::proof]
#[kani::unwind(27)]
#[kani::stub(mmtk::util::metadata::side_metadata::global_side_metadata_base_address, stub_base)]
fn c34_hole_search() {
    check_hole_search(LINES - 24);
}

/// Thorough tier: any cursor (loops bounded by the code constant Block::LINES).
#[kani::proof]
#[kani::unwind(131)]
#[kani::stub(mmtk::util::metadata::side_metadata::global_side_metadata_base_address, stub_base)]
fn c34_hole_search_deep() {
    check_hole_search(0);
}

/// Marking the lines of an object: every line the object overlaps carries the current state afterwards, no other
/// line mark changes, and the return value counts the lines newly marked. Quick tier: objects up to 4 lines + 1.
/// `ref_offset`: how far the object reference lies above the object start (0, or 16 for the header-before-reference binding).
fn check_mark_lines<VM: mmtk::vm::VMBinding>(max_size: usize, ref_offset: usize) {
    let mut buf = LineMarks(kani::any());
    let img = buf.0;
    let b = place_block(&mut buf);
    let state: u8 = kani::any();
    kani::assume(state >= 1 && state <= Line::MAX_MARK_STATE);
    let off: usize = kani::any();
    let size: usize = kani::any();
    // `off` is the offset of the object START within the block
    kani::assume(off % 8 == 0 && off < Block::BYTES && size >= 8 + ref_offset && size <= max_size && off + size <= Block::BYTES);
    ctl::set_current_size(size);
    let obj = ObjectReference::from_raw_address(addr(b + off + ref_offset)).unwrap();
    let n = Line::mark_lines_for_object::<VM>(obj, state);
    let first = off >> LOG_LINE;
    let last = (off + size - 1) >> LOG_LINE;
    let j: usize = kani::any();
    kani::assume(j < LINES);
    if j >= first && j <= last {
        assert!(buf.0[j] == state, "C34.mark_lines.every_line_spanned_by_the_object_is_marked");
    } else {
        assert!(buf.0[j] == img[j], "C34.mark_lines.other_lines_unchanged");
    }
    let mut newly = 0;
    let mut k = first;
    while k <= last {
        if img[k] != state {
            newly += 1;
        }
        k += 1;
    }
    assert!(n == newly, "C34.mark_lines.returns_number_of_newly_marked_lines");
    kani::cover!(last > first + 1, "C34.cover.object_spans_three_lines");
    kani::cover!((off + size) % Line::BYTES == 0, "C34.cover.object_ends_on_line_boundary");
    kani::cover!(ref_offset == 0 || (off + ref_offset) >> LOG_LINE != first, "C34.cover.reference_lies_in_a_later_line_than_the_object_start");
    std::mem::forget(buf);
}

#[kani::proof]
#[kani::unwind(8)]
#[kani::stub(mmtk::util::metadata::side_metadata::global_side_metadata_base_address, stub_base)]
fn c34_mark_lines_for_object() {
    check_mark_lines::<KVM0>(1024, 0);
}

/// A binding whose object reference points 16 bytes past the object start: the line holding only the header is spanned
/// by the object and must be marked too.
#[kani::proof]
#[kani::unwind(8)]
#[kani::stub(mmtk::util::metadata::side_metadata::global_side_metadata_base_address, stub_base)]
fn c34_mark_lines_for_object_header_before_ref() {
    check_mark_lines::<crate::vm::KVM<8, 64, 4>>(1024, 16);
}

#[kani::proof]
#[kani::unwind(131)]
#[kani::stub(mmtk::util::metadata::side_metadata::global_side_metadata_base_address, stub_base)]
fn c34_mark_lines_for_object_deep() {
    check_mark_lines::<KVM0>(Block::BYTES, 0);
}

/// Block state through the side table: set_state then get_state returns the state; only the block's byte changes.
#[kani::proof]
#[kani::stub(mmtk::util::metadata::side_metadata::global_side_metadata_base_address, stub_base)]
fn c34_block_state_in_side_table() {
    let mut buf: [u8; 16] = kani::any();
    let img = buf;
    let spec = Block::MARK_TABLE;
    let b0: usize = kani::any();
    kani::assume(b0 % (Block::BYTES * 16) == 0 && b0 >= Block::BYTES * 16 && b0 <= (1usize << 46));
    let buf_addr = Address::from_mut_ptr(buf.as_mut_ptr()).as_usize();
    let m0 = b0 >> Block::LOG_BYTES;
    kani::assume(spec.offset + m0 <= buf_addr);
    unsafe { BASE = buf_addr - spec.offset - m0 };
    let k: usize = kani::any();
    kani::assume(k < 16);
    let block = Block::from_aligned_address(addr(b0 + k * Block::BYTES));
    assert!(u8::from(block.get_state()) == img[k], "C34.block_state.get_state_reads_the_blocks_byte");
    let n: u8 = kani::any();
    kani::assume(n >= 1 && (n as usize) < LINES);
    let which: u8 = kani::any();
    let s = match which {
        0 => BlockState::Unallocated,
        1 => BlockState::Unmarked,
        2 => BlockState::Marked,
        _ => BlockState::Reusable { unavailable_lines: n },
    };
    block.set_state(s);
    assert!(block.get_state() == s, "C34.block_state.set_get_roundtrip");
    let j: usize = kani::any();
    kani::assume(j < 16);
    assert!(j == k || buf[j] == img[j], "C34.block_state.set_state_touches_only_its_block");
}
