//! Kani harnesses over the real `mmtk` crate (path dependency on the tree under verification).
//! One module per property; see /verif/DESIGN.md.
#![allow(clippy::all, unused_imports, dead_code)]

pub mod vm;

#[cfg(kani)]
mod c33_align;
#[cfg(kani)]
mod c23_header;
#[cfg(kani)]
mod side;
#[cfg(kani)]
mod c20_side;
#[cfg(kani)]
mod c25_sanity;
#[cfg(kani)]
mod layout;
#[cfg(kani)]
mod c32_descriptor;
#[cfg(kani)]
mod c35_sizeclass;
#[cfg(kani)]
mod c38_heapsize;
#[cfg(kani)]
mod c21_bulk;
#[cfg(kani)]
mod mmapper;
#[cfg(kani)]
mod c22_search;
#[cfg(kani)]
mod c40_revgroup;
#[cfg(kani)]
mod c31_sft;
#[cfg(kani)]
mod c27_rawfreelist;
#[cfg(kani)]
mod c26_freelist;
#[cfg(kani)]
mod c28_pageresource;
#[cfg(kani)]
mod obj;
#[cfg(kani)]
mod interference;
#[cfg(kani)]
mod c18_transitions;
#[cfg(kani)]
mod c17_forwarding;
#[cfg(kani)]
mod c34_immix;
#[cfg(kani)]
mod c24_layout;
#[cfg(kani)]
mod c19_blockpool;
#[cfg(kani)]
mod c08_interior;
#[cfg(kani)]
mod c37_glue;
// c29_map32.rs is an abandoned experiment (needs a Map32 hook that was removed again); not compiled.
