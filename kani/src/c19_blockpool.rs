//! C19 — the block pool never loses or duplicates a block (sequential histories only; bounded).
//!
//! The real `BlockQueue` (through the hook handle) and `BlockPool` are driven by one thread; the worker ordinal that
//! `BlockPool::push` reads from a thread-local is supplied by the harness (`kani::stub` of current_worker_ordinal).
//! Concurrent histories are outside this family.
use mmtk::util::linear_scan::Region;
use mmtk::util::Address;
use mmtk::verif_hooks::block_pool::{BlockPool, Queue};
use mmtk::verif_hooks::Block;

static mut ORDINAL: usize = 0;
fn stub_ordinal() -> usize {
    unsafe { ORDINAL }
}
fn no_spin() {}

fn any_block() -> Block {
    let a: usize = kani::any();
    kani::assume(a != 0 && a % Block::BYTES == 0 && a <= (1usize << 46));
    Block::from_aligned_address(unsafe { Address::from_usize(a) })
}
fn nth_block(i: usize) -> Block {
    Block::from_aligned_address(unsafe { Address::from_usize((i + 1) * Block::BYTES) })
}

/// BlockQueue: push adds exactly the block, pop returns a held block and removes it, None iff
/// empty, len == number held, iterate yields exactly the held blocks, replace swaps the two queues' contents.
#[kani::proof]
#[kani::unwind(6)]
fn c19_queue_push_pop() {
    let q = Queue::<Block>::new();
    assert!(q.len() == 0 && q.is_empty() && q.pop().is_none(), "C19.queue.new_is_empty");
    let (b0, b1, b2) = (any_block(), any_block(), any_block());
    unsafe {
        assert!(q.push_relaxed(b0).is_ok() && q.push_relaxed(b1).is_ok(), "C19.queue.push_succeeds_below_capacity");
    }
    assert!(q.len() == 2 && !q.is_empty(), "C19.queue.len_counts_pushes");
    let mut seen = [Block::from_aligned_address(unsafe { Address::from_usize(Block::BYTES) }); 4];
    let mut n = 0;
    q.iterate_blocks(&mut |b| {
        if n < 4 {
            seen[n] = b;
        }
        n += 1;
    });
    assert!(n == 2 && seen[0] == b0 && seen[1] == b1, "C19.queue.iterate_yields_exactly_the_held_blocks");
    // replace: the queue takes over the new queue's blocks and hands back its own
    let other = Queue::<Block>::new();
    unsafe {
        assert!(other.push_relaxed(b2).is_ok(), "C19.queue.push_succeeds_below_capacity");
    }
    let old = q.replace(other);
    assert!(q.len() == 1 && old.len() == 2, "C19.queue.replace_swaps_lengths");
    assert!(q.pop() == Some(b2) && q.pop().is_none(), "C19.queue.replace_installs_the_new_blocks");
    // the old queue hands back exactly its two blocks, each once, in some order
    let (x, y) = (old.pop(), old.pop());
    assert!((x == Some(b0) && y == Some(b1)) || (x == Some(b1) && y == Some(b0)), "C19.queue.replace_returns_the_old_blocks_each_once");
    assert!(old.pop().is_none(), "C19.queue.pop_on_empty_is_none");
    assert!(old.len() == 0 && q.len() == 0, "C19.queue.len_zero_after_popping_everything");
}

/// BlockQueue at capacity: the push beyond CAPACITY is refused and hands the block back; nothing is lost.
#[kani::proof]
#[kani::unwind(259)]
fn c19_queue_capacity() {
    let q = Queue::<Block>::new();
    let mut i = 0;
    while i < Queue::<Block>::CAPACITY {
        let r = unsafe { q.push_relaxed(nth_block(i)) };
        assert!(r.is_ok(), "C19.queue.push_succeeds_below_capacity");
        i += 1;
    }
    assert!(q.len() == Queue::<Block>::CAPACITY, "C19.queue.len_at_capacity");
    let extra = any_block();
    kani::assume(extra.start() > nth_block(Queue::<Block>::CAPACITY).start()); // not one of the blocks already held
    assert!(unsafe { q.push_relaxed(extra) } == Err(extra), "C19.queue.push_at_capacity_returns_the_block");
    assert!(q.len() == Queue::<Block>::CAPACITY, "C19.queue.refused_push_changes_nothing");
    let popped = q.pop();
    assert!(popped.is_some() && popped != Some(extra) && q.len() == Queue::<Block>::CAPACITY - 1, "C19.queue.pop_after_refused_push_returns_a_held_block");
}

/// BlockPool, two workers, three symbolic blocks pushed by workers 0, 1, 0: len counts the held blocks, iterate_blocks
/// yields them, nothing is poppable before a flush (blocks are worker-local), and after flush_all every held block is
/// popped exactly once and then the pool is empty.
#[kani::proof]
#[kani::unwind(6)]
#[kani::stub(mmtk::scheduler::worker::current_worker_ordinal, stub_ordinal)]
#[kani::stub(core::hint::spin_loop, no_spin)]
fn c19_pool_push_flush_pop() {
    let pool = BlockPool::<Block>::new(2);
    assert!(pool.len() == 0 && pool.pop().is_none(), "C19.pool.new_is_empty");
    let b = [any_block(), any_block(), any_block()];
    kani::assume(b[0] != b[1] && b[1] != b[2] && b[0] != b[2]);
    // worker ordinals are concrete (0, 1, 0): a symbolic index into the per-worker queues exhausts CBMC's memory
    unsafe { ORDINAL = 0 };
    pool.push(b[0]);
    unsafe { ORDINAL = 1 };
    pool.push(b[1]);
    unsafe { ORDINAL = 0 };
    pool.push(b[2]);
    assert!(pool.len() == 3, "C19.pool.len_equals_blocks_held");
    let mut cnt = [0usize; 3];
    let mut total = 0;
    pool.iterate_blocks(&mut |x| {
        let mut k = 0;
        while k < 3 {
            if x == b[k] {
                cnt[k] += 1;
            }
            k += 1;
        }
        total += 1;
    });
    assert!(total == 3 && cnt[0] == 1 && cnt[1] == 1 && cnt[2] == 1, "C19.pool.iterate_yields_each_held_block_once");
    assert!(pool.pop().is_none() && pool.len() == 3, "C19.pool.worker_local_blocks_are_not_popped_before_flush");
    pool.flush_all();
    assert!(pool.len() == 3, "C19.pool.flush_keeps_len");
    let mut popped = [0usize; 3];
    let mut j = 0;
    while j < 3 {
        match pool.pop() {
            Some(x) => {
                let mut k = 0;
                let mut hit = false;
                while k < 3 {
                    if x == b[k] {
                        popped[k] += 1;
                        hit = true;
                    }
                    k += 1;
                }
                assert!(hit, "C19.pool.pop_returns_only_pushed_blocks");
            }
            None => assert!(false, "C19.pool.every_held_block_is_poppable_after_flush_all"),
        }
        assert!(pool.len() == 2 - j, "C19.pool.len_decreases_with_each_pop");
        j += 1;
    }
    assert!(popped[0] == 1 && popped[1] == 1 && popped[2] == 1, "C19.pool.each_block_popped_exactly_once");
    assert!(pool.pop().is_none() && pool.len() == 0, "C19.pool.empty_after_popping_everything");
}

/// Queue-capacity overflow inside `BlockPool::push`: starting from a pool whose worker-local queue is full (256 blocks
/// pushed through the real `push_relaxed`, assembled by the `pool_with_local_queue` hook), the 257th push hands the full
/// queue to the global list without losing, duplicating or double-counting a block.
#[kani::proof]
#[kani::unwind(259)]
#[kani::stub(mmtk::scheduler::worker::current_worker_ordinal, stub_ordinal)]
#[kani::stub(core::hint::spin_loop, no_spin)]
fn c19_pool_overflow_step_deep() {
    const CAP: usize = 256;
    assert!(Queue::<Block>::CAPACITY == CAP);
    let q = Queue::<Block>::new();
    let mut i = 0;
    while i < CAP {
        let r = unsafe { q.push_relaxed(nth_block(i)) };
        assert!(r.is_ok(), "C19.queue.push_succeeds_below_capacity");
        i += 1;
    }
    let pool = mmtk::verif_hooks::block_pool::pool_with_local_queue(q);
    assert!(pool.len() == CAP, "C19.pool.len_equals_blocks_held");
    unsafe { ORDINAL = 0 };
    let extra = any_block();
    kani::assume(extra.start() > nth_block(CAP).start()); // not one of the blocks already held
    pool.push(extra);
    assert!(pool.len() == CAP + 1, "C19.pool.len_after_overflow_counts_each_block_once");
    // every held block is still held exactly once: symbolic witness w among the old blocks, and the new block
    let w: usize = kani::any();
    kani::assume(w < CAP);
    let (mut total, mut n_w, mut n_extra) = (0usize, 0usize, 0usize);
    pool.iterate_blocks(&mut |x| {
        total += 1;
        if x == nth_block(w) {
            n_w += 1;
        }
        if x == extra {
            n_extra += 1;
        }
    });
    assert!(total == CAP + 1, "C19.pool.no_block_lost_on_overflow");
    assert!(n_w == 1 && n_extra == 1, "C19.pool.iterate_yields_each_held_block_once");
    // the overflowed queue is global now: a block of it is handed out without a flush, and the count follows
    let p = pool.pop();
    assert!(p.is_some() && p != Some(extra), "C19.pool.overflowed_queue_is_poppable");
    let idx = p.unwrap().start().as_usize() / Block::BYTES - 1;
    assert!(idx < CAP, "C19.pool.pop_returns_only_pushed_blocks");
    assert!(pool.len() == CAP, "C19.pool.len_decreases_with_each_pop");
}

/// EXPERIMENT (not part of the check): CBMC aborts after half an hour (memory cap).
/// Flush next to a full array: the global list already holds a full array (256 blocks) and a worker-local queue holds two
/// blocks; `flush_all` must hand every block over -- nothing may be dropped because an existing array has no room.
#[kani::proof]
#[kani::unwind(259)]
#[kani::stub(mmtk::scheduler::worker::current_worker_ordinal, stub_ordinal)]
#[kani::stub(core::hint::spin_loop, no_spin)]
fn c19_pool_flush_next_to_full_array_exp() {
    const CAP: usize = 256;
    let g = Queue::<Block>::new();
    let mut i = 0;
    while i < CAP {
        let r = unsafe { g.push_relaxed(nth_block(i)) };
        assert!(r.is_ok(), "C19.queue.push_succeeds_below_capacity");
        i += 1;
    }
    let l = Queue::<Block>::new();
    let (x, y) = (any_block(), any_block());
    kani::assume(x.start() > nth_block(CAP).start() && y.start() > x.start()); // two more, distinct from the held ones
    unsafe {
        assert!(l.push_relaxed(x).is_ok() && l.push_relaxed(y).is_ok(), "C19.queue.push_succeeds_below_capacity");
    }
    let pool = mmtk::verif_hooks::block_pool::pool_with_local_and_global_queue(l, g);
    assert!(pool.len() == CAP + 2, "C19.pool.len_equals_blocks_held");
    pool.flush_all();
    assert!(pool.len() == CAP + 2, "C19.pool.flush_keeps_len");
    let w: usize = kani::any();
    kani::assume(w < CAP);
    let (mut total, mut n_w, mut n_x, mut n_y) = (0usize, 0usize, 0usize, 0usize);
    pool.iterate_blocks(&mut |b| {
        total += 1;
        if b == nth_block(w) {
            n_w += 1;
        }
        if b == x {
            n_x += 1;
        }
        if b == y {
            n_y += 1;
        }
    });
    assert!(total == CAP + 2, "C19.pool.flush_keeps_every_block");
    assert!(n_w == 1 && n_x == 1 && n_y == 1, "C19.pool.iterate_yields_each_held_block_once");
    // both arrays are global now: the first pops hand out held blocks and the count follows
    let p = pool.pop();
    assert!(p.is_some(), "C19.pool.every_held_block_is_poppable_after_flush_all");
    assert!(pool.len() == CAP + 1, "C19.pool.len_decreases_with_each_pop");
}

/// Queue-capacity overflow: the 257th push by one worker moves the full local queue to the global list without loss.
/// EXPERIMENT (not part of the check): CBMC needs more than 45 minutes for the 257 pushes and 257 pops.
#[kani::proof]
#[kani::unwind(260)]
#[kani::stub(mmtk::scheduler::worker::current_worker_ordinal, stub_ordinal)]
#[kani::stub(core::hint::spin_loop, no_spin)]
fn c19_pool_overflow_exp() {
    const N: usize = 257;
    let pool = BlockPool::<Block>::new(1);
    unsafe { ORDINAL = 0 };
    let mut i = 0;
    while i < N {
        pool.push(nth_block(i));
        i += 1;
    }
    assert!(pool.len() == N, "C19.pool.len_after_overflow");
    let mut total = 0;
    pool.iterate_blocks(&mut |_| total += 1);
    assert!(total == N, "C19.pool.no_block_lost_on_overflow");
    // the full queue is already global: poppable without a flush
    assert!(pool.pop() == Some(nth_block(255)), "C19.pool.overflowed_queue_is_poppable");
    pool.flush_all();
    let mut seen = [false; N];
    seen[255] = true;
    let mut j = 1;
    while j < N {
        match pool.pop() {
            Some(x) => {
                let idx = x.start().as_usize() / Block::BYTES - 1;
                assert!(idx < N && !seen[idx], "C19.pool.no_block_popped_twice");
                seen[idx] = true;
            }
            None => assert!(false, "C19.pool.every_held_block_is_poppable_after_flush_all"),
        }
        j += 1;
    }
    assert!(pool.pop().is_none() && pool.len() == 0, "C19.pool.empty_after_popping_everything");
}
