//! Harness stand-in for the process-wide `MMAPPER` singleton (a lazily created `Box<dyn Mmapper>`):
//! `kani::stub(mmtk::util::heap::layout::create_mmapper, stub_create_mmapper)`.
//! Only the two queries the side-metadata search code uses are answered; every mapping operation is
//! `unimplemented!()` (reaching one is a failing check).
use mmtk::util::os::*;
use mmtk::util::Address;
use mmtk::verif_hooks::Mmapper;

/// `[MAPPED_LO, MAPPED_HI)` is the mapped address range (harness controlled; default: everything).
pub static mut MAPPED_LO: usize = 0;
pub static mut MAPPED_HI: usize = usize::MAX;
/// log2 of the mapping granularity the stand-in reports (22 = chunk, as `ChunkStateMmapper`; a harness may lower it so
/// that a mapped/unmapped boundary falls inside a small buffer).
pub static mut LOG_GRANULARITY: u8 = 22;

pub struct KMmapper;

impl Mmapper for KMmapper {
    fn log_granularity(&self) -> u8 {
        unsafe { LOG_GRANULARITY } // default 22 = LOG_BYTES_IN_CHUNK, as in ChunkStateMmapper::log_granularity
    }
    fn log_mappable_bytes(&self) -> u8 {
        47
    }
    fn mark_as_mapped(&self, _start: Address, _bytes: usize) {
        unimplemented!()
    }
    fn quarantine_address_range(&self, _s: Address, _p: usize, _h: HugePageSupport, _a: &MmapAnnotation) -> MmapResult<()> {
        unimplemented!()
    }
    fn quarantine_address_range_anywhere(&self, _p: usize, _al: Option<usize>, _h: HugePageSupport, _a: &MmapAnnotation) -> MmapResult<Address> {
        unimplemented!()
    }
    fn quarantine_address_range_preferred(&self, _s: Address, _p: usize, _al: Option<usize>, _h: HugePageSupport, _a: &MmapAnnotation) -> MmapResult<Address> {
        unimplemented!()
    }
    fn ensure_mapped(&self, _s: Address, _p: usize, _h: HugePageSupport, _pr: MmapProtection, _a: &MmapAnnotation) -> MmapResult<()> {
        unimplemented!()
    }
    fn is_mapped_address(&self, addr: Address) -> bool {
        unsafe { addr.as_usize() >= MAPPED_LO && addr.as_usize() < MAPPED_HI }
    }
}

pub fn stub_create_mmapper() -> Box<dyn Mmapper> {
    Box::new(KMmapper)
}
