//! C23 — in-header metadata fields are isolated and report their own previous value.
//!
//! Set-up shared by all harnesses: a 24-byte header window `buf: [u64; 3]` with fully symbolic
//! contents; the header address is the middle word, so bit offsets in [-64, 63] land in words 0..1 and
//! word 2 is a guard. A spec is either a sub-byte field (1..=7 bits inside one byte, any legal
//! `bit_offset`) or a naturally aligned 8/16/32/64-bit field with an optional symbolic mask.
//! "The field" is the masked bits when a mask is given. Every harness checks
//!   (ret)   the returned value is exactly the old field value,
//!   (new)   the field afterwards is what the operation's arithmetic says,
//!   (frame) no bit outside the field changed anywhere in the window.
use mmtk::util::metadata::header_metadata::HeaderMetadataSpec;
use mmtk::util::Address;
use std::cell::Cell;
use std::sync::atomic::Ordering;

const ORD: Ordering = Ordering::SeqCst;

struct Ctx {
    buf: [u64; 3],
    old: [u64; 3],
    header: Address,
    spec: HeaderMetadataSpec,
    /// word index and shift of the field inside `buf`
    w: usize,
    sh: u32,
    /// unshifted mask of the field bits (value domain)
    fm: u64,
}

impl Ctx {
    fn old_field(&self) -> u64 {
        (self.old[self.w] >> self.sh) & self.fm
    }
    fn new_field(&self) -> u64 {
        (self.buf[self.w] >> self.sh) & self.fm
    }
    fn frame_ok(&self) -> bool {
        let m = self.fm << self.sh;
        let k0 = if self.w == 0 { !m } else { !0u64 };
        let k1 = if self.w == 1 { !m } else { !0u64 };
        (self.buf[0] & k0) == (self.old[0] & k0)
            && (self.buf[1] & k1) == (self.old[1] & k1)
            && self.buf[2] == self.old[2]
    }
    fn unchanged(&self) -> bool {
        self.buf[0] == self.old[0] && self.buf[1] == self.old[1] && self.buf[2] == self.old[2]
    }
}

/// Sub-byte spec: 1..=7 bits that do not cross a byte boundary, at any offset in [-64, 63].
fn ctx_bits(buf: &mut [u64; 3]) -> Ctx {
    let old = *buf;
    let n: usize = kani::any();
    let off: isize = kani::any();
    kani::assume(n >= 1 && n <= 7);
    kani::assume(off >= -64 && off <= 63);
    kani::assume((off >> 3) == ((off + n as isize - 1) >> 3));
    let pos = (off + 64) as usize;
    Ctx {
        buf: [0; 3],
        old,
        header: Address::from_mut_ptr(&mut buf[1] as *mut u64),
        spec: HeaderMetadataSpec { bit_offset: off, num_of_bits: n },
        w: pos / 64,
        sh: (pos % 64) as u32,
        fm: (1u64 << n) - 1,
    }
}

/// Byte-or-wider spec of `bits` = 8/16/32/64 bits, naturally aligned, with optional mask `mask`.
fn ctx_wide(buf: &mut [u64; 3], bits: usize, mask: Option<u64>) -> Ctx {
    let old = *buf;
    let off: isize = kani::any();
    kani::assume(off >= -64 && off <= 63);
    kani::assume(off & (bits as isize - 1) == 0);
    let pos = (off + 64) as usize;
    let full = if bits == 64 { !0u64 } else { (1u64 << bits) - 1 };
    Ctx {
        buf: [0; 3],
        old,
        header: Address::from_mut_ptr(&mut buf[1] as *mut u64),
        spec: HeaderMetadataSpec { bit_offset: off, num_of_bits: bits },
        w: pos / 64,
        sh: (pos % 64) as u32,
        fm: full & mask.unwrap_or(!0),
    }
}

// ------------------------------------------------------------------------------------------
// sub-byte fields (T = u8)
// ------------------------------------------------------------------------------------------

#[kani::proof]
#[kani::unwind(3)]
fn c23_bits_load_store() {
    let mut buf: [u64; 3] = kani::any();
    let mut c = ctx_bits(&mut buf);
    let atomic: bool = kani::any();
    let r = if atomic { c.spec.load_atomic::<u8>(c.header, None, ORD) } else { unsafe { c.spec.load::<u8>(c.header, None) } };
    c.buf = buf;
    assert!(r as u64 == c.old_field(), "C23.load.bits.ret_is_field");
    assert!(c.unchanged(), "C23.load.bits.frame");
    let v: u8 = kani::any();
    kani::assume((v as u64) <= c.fm);
    if atomic { c.spec.store_atomic::<u8>(c.header, v, None, ORD) } else { unsafe { c.spec.store::<u8>(c.header, v, None) } };
    c.buf = buf;
    assert!(c.new_field() == v as u64, "C23.store.bits.new_is_val");
    assert!(c.frame_ok(), "C23.store.bits.frame");
    kani::cover!(c.spec.bit_offset < 0 && c.spec.num_of_bits == 3, "C23.cover.bits_negative_offset");
    kani::cover!(c.spec.bit_offset == 57 && c.spec.num_of_bits == 7, "C23.cover.bits_top");
    kani::cover!(c.spec.bit_offset == -64, "C23.cover.bits_lowest");
}

#[kani::proof]
fn c23_bits_compare_exchange() {
    let mut buf: [u64; 3] = kani::any();
    let mut c = ctx_bits(&mut buf);
    let (o, n): (u8, u8) = (kani::any(), kani::any());
    kani::assume((o as u64) <= c.fm && (n as u64) <= c.fm);
    let r = c.spec.compare_exchange::<u8>(c.header, o, n, None, ORD, ORD);
    c.buf = buf;
    if c.old_field() == o as u64 {
        assert!(r.is_ok(), "C23.compare_exchange.bits.succeeds_iff_equal");
        assert!(c.new_field() == n as u64, "C23.compare_exchange.bits.new_is_val");
        assert!(c.frame_ok(), "C23.compare_exchange.bits.frame");
        assert!(r.unwrap_or(0xff) as u64 == c.old_field(), "C23.compare_exchange.bits.ok_returns_old_field");
    } else {
        assert!(r.is_err(), "C23.compare_exchange.bits.fails_iff_different");
        assert!(c.unchanged(), "C23.compare_exchange.bits.failure_changes_nothing");
        assert!(r.unwrap_err() as u64 == c.old_field(), "C23.compare_exchange.bits.err_returns_old_field");
    }
    kani::cover!(r.is_ok() && c.spec.bit_offset < 0, "C23.cover.cas_bits_ok");
    kani::cover!(r.is_err(), "C23.cover.cas_bits_err");
    kani::cover!(r.is_ok() && (c.old[c.w] >> c.sh) & 0xff & !c.fm != 0, "C23.cover.cas_bits_neighbours_set");
}

#[kani::proof]
#[kani::unwind(3)]
fn c23_bits_fetch_ops() {
    let mut buf: [u64; 3] = kani::any();
    let mut c = ctx_bits(&mut buf);
    let v: u8 = kani::any();
    let op: u8 = kani::any();
    kani::assume(op < 4);
    let r = match op {
        0 => c.spec.fetch_add::<u8>(c.header, v, ORD),
        1 => c.spec.fetch_sub::<u8>(c.header, v, ORD),
        2 => c.spec.fetch_and::<u8>(c.header, v, ORD),
        _ => c.spec.fetch_or::<u8>(c.header, v, ORD),
    };
    c.buf = buf;
    let of = c.old_field();
    let expect = match op {
        0 => of.wrapping_add(v as u64) & c.fm,
        1 => of.wrapping_sub(v as u64) & c.fm,
        2 => of & (v as u64) & c.fm,
        _ => (of | (v as u64)) & c.fm,
    };
    assert!(r as u64 == of, "C23.fetch_op.bits.ret_is_old_field");
    assert!(c.new_field() == expect, "C23.fetch_op.bits.new_is_arith");
    assert!(c.frame_ok(), "C23.fetch_op.bits.frame");
    kani::cover!(op == 0 && of + (v as u64) > c.fm, "C23.cover.add_wraps");
    kani::cover!(op == 3 && (v as u64) > c.fm, "C23.cover.or_wide_operand");
}

#[kani::proof]
#[kani::unwind(3)]
fn c23_bits_fetch_update() {
    let mut buf: [u64; 3] = kani::any();
    let mut c = ctx_bits(&mut buf);
    let resp: Option<u8> = kani::any();
    let seen = Cell::new(0xffffu64);
    let seen_ref = &seen;
    let r = c.spec.fetch_update::<u8, _>(c.header, ORD, ORD, move |x: u8| {
        seen_ref.set(x as u64);
        resp
    });
    c.buf = buf;
    assert!(seen.get() == c.old_field(), "C23.fetch_update.bits.closure_sees_field_only");
    match resp {
        Some(nv) => {
            assert!(r == Ok(c.old_field() as u8), "C23.fetch_update.bits.ok_returns_old_field");
            assert!(c.new_field() == (nv as u64) & c.fm, "C23.fetch_update.bits.new_is_val");
            assert!(c.frame_ok(), "C23.fetch_update.bits.frame");
        }
        None => {
            assert!(r == Err(c.old_field() as u8), "C23.fetch_update.bits.err_returns_old_field");
            assert!(c.unchanged(), "C23.fetch_update.bits.none_changes_nothing");
        }
    }
}

// ------------------------------------------------------------------------------------------
// byte-or-wider fields, one instantiation per value type
// ------------------------------------------------------------------------------------------

macro_rules! wide_harnesses {
    ($t:ty, $bits:expr, $ls:ident, $cas:ident, $ops:ident, $upd:ident) => {
        #[kani::proof]
        #[kani::unwind(3)]
        fn $ls() {
            let mut buf: [u64; 3] = kani::any();
            let mask: Option<$t> = kani::any();
            let mut c = ctx_wide(&mut buf, $bits, mask.map(|m| m as u64));
            let atomic: bool = kani::any();
            let r = if atomic { c.spec.load_atomic::<$t>(c.header, mask, ORD) } else { unsafe { c.spec.load::<$t>(c.header, mask) } };
            c.buf = buf;
            assert!(r as u64 == c.old_field(), "C23.load.wide.ret_is_field");
            assert!(c.unchanged(), "C23.load.wide.frame");
            let v: $t = kani::any();
            if atomic { c.spec.store_atomic::<$t>(c.header, v, mask, ORD) } else { unsafe { c.spec.store::<$t>(c.header, v, mask) } };
            c.buf = buf;
            assert!(c.new_field() == (v as u64) & c.fm, "C23.store.wide.new_is_val");
            assert!(c.frame_ok(), "C23.store.wide.frame");
            kani::cover!(mask.is_some() && c.spec.bit_offset < 0, "C23.cover.wide_masked_negative");
            kani::cover!(mask.is_none() && c.spec.bit_offset >= 0, "C23.cover.wide_unmasked");
        }

        #[kani::proof]
        fn $cas() {
            let mut buf: [u64; 3] = kani::any();
            let mask: Option<$t> = kani::any();
            let mut c = ctx_wide(&mut buf, $bits, mask.map(|m| m as u64));
            let (o, n): ($t, $t) = (kani::any(), kani::any());
            // the compared and the new value are values *of the field*
            kani::assume((o as u64) & !c.fm == 0 && (n as u64) & !c.fm == 0);
            let r = c.spec.compare_exchange::<$t>(c.header, o, n, mask, ORD, ORD);
            c.buf = buf;
            if c.old_field() == o as u64 {
                assert!(r.is_ok(), "C23.compare_exchange.wide.succeeds_iff_equal");
                assert!(c.new_field() == n as u64, "C23.compare_exchange.wide.new_is_val");
                assert!(c.frame_ok(), "C23.compare_exchange.wide.frame");
                if mask.is_some() {
                    assert!(r.unwrap_or(0) as u64 == c.old_field(), "C23.compare_exchange.masked.ok_returns_old_field");
                } else {
                    assert!(r.unwrap_or(0) as u64 == c.old_field(), "C23.compare_exchange.wide.ok_returns_old_field");
                }
            } else {
                assert!(r.is_err(), "C23.compare_exchange.wide.fails_iff_different");
                assert!(c.unchanged(), "C23.compare_exchange.wide.failure_changes_nothing");
                if mask.is_some() {
                    assert!(r.unwrap_err() as u64 == c.old_field(), "C23.compare_exchange.masked.err_returns_old_field");
                } else {
                    assert!(r.unwrap_err() as u64 == c.old_field(), "C23.compare_exchange.wide.err_returns_old_field");
                }
            }
            kani::cover!(r.is_ok() && mask.is_some() && (c.old[c.w] >> c.sh) & !c.fm & ((1u128 << $bits) - 1) as u64 != 0, "C23.cover.cas_masked_ok_with_foreign_bits");
            kani::cover!(r.is_err() && mask.is_none(), "C23.cover.cas_wide_err");
        }

        #[kani::proof]
        fn $ops() {
            let mut buf: [u64; 3] = kani::any();
            let mut c = ctx_wide(&mut buf, $bits, None);
            let v: $t = kani::any();
            let op: u8 = kani::any();
            kani::assume(op < 4);
            let r = match op {
                0 => c.spec.fetch_add::<$t>(c.header, v, ORD),
                1 => c.spec.fetch_sub::<$t>(c.header, v, ORD),
                2 => c.spec.fetch_and::<$t>(c.header, v, ORD),
                _ => c.spec.fetch_or::<$t>(c.header, v, ORD),
            };
            c.buf = buf;
            let of = c.old_field();
            let expect = match op {
                0 => of.wrapping_add(v as u64) & c.fm,
                1 => of.wrapping_sub(v as u64) & c.fm,
                2 => of & (v as u64),
                _ => of | (v as u64),
            };
            assert!(r as u64 == of, "C23.fetch_op.wide.ret_is_old_field");
            assert!(c.new_field() == expect, "C23.fetch_op.wide.new_is_arith");
            assert!(c.frame_ok(), "C23.fetch_op.wide.frame");
            kani::cover!(op == 1 && (v as u64) > of, "C23.cover.sub_wraps");
        }

        #[kani::proof]
        #[kani::unwind(3)]
        fn $upd() {
            let mut buf: [u64; 3] = kani::any();
            let mut c = ctx_wide(&mut buf, $bits, None);
            let resp: Option<$t> = kani::any();
            let seen = Cell::new(0u64);
            let calls = Cell::new(0u8);
            let (seen_ref, calls_ref) = (&seen, &calls);
            let r = c.spec.fetch_update::<$t, _>(c.header, ORD, ORD, move |x: $t| {
                seen_ref.set(x as u64);
                calls_ref.set(calls_ref.get() + 1);
                resp
            });
            c.buf = buf;
            assert!(calls.get() == 1 && seen.get() == c.old_field(), "C23.fetch_update.wide.closure_sees_field_only");
            match resp {
                Some(nv) => {
                    assert!(r == Ok(c.old_field() as $t), "C23.fetch_update.wide.ok_returns_old_field");
                    assert!(c.new_field() == nv as u64, "C23.fetch_update.wide.new_is_val");
                    assert!(c.frame_ok(), "C23.fetch_update.wide.frame");
                }
                None => {
                    assert!(r == Err(c.old_field() as $t), "C23.fetch_update.wide.err_returns_old_field");
                    assert!(c.unchanged(), "C23.fetch_update.wide.none_changes_nothing");
                }
            }
        }
    };
}

wide_harnesses!(u8, 8, c23_u8_load_store, c23_u8_compare_exchange, c23_u8_fetch_ops, c23_u8_fetch_update);
wide_harnesses!(u16, 16, c23_u16_load_store, c23_u16_compare_exchange, c23_u16_fetch_ops, c23_u16_fetch_update);
wide_harnesses!(u32, 32, c23_u32_load_store, c23_u32_compare_exchange, c23_u32_fetch_ops, c23_u32_fetch_update);
wide_harnesses!(u64, 64, c23_u64_load_store, c23_u64_compare_exchange, c23_u64_fetch_ops, c23_u64_fetch_update);
wide_harnesses!(usize, 64, c23_usize_load_store, c23_usize_compare_exchange, c23_usize_fetch_ops, c23_usize_fetch_update);
