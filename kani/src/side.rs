//! Shared set-up for side-metadata harnesses (C20, C21, C22, C18, C17, C08, C37).
//!
//! The runtime metadata base address is a global singleton. The harnesses redirect
//! `global_side_metadata_base_address()` with `kani::stub` to `stub_base`, which returns a
//! harness-chosen address such that the metadata of a *window* of data regions lands in a harness
//! buffer whose contents are fully symbolic. Nothing of the address arithmetic is re-implemented:
//! the real `address_to_meta_address` computes `base + offset + f(data_addr)` and must land on the
//! byte/bit the oracle (`Window::field_pos`) predicts.
use mmtk::util::metadata::side_metadata::SideMetadataSpec;
use mmtk::util::Address;

pub static mut BASE: usize = 0;

/// Replacement for `mmtk::util::metadata::side_metadata::global_side_metadata_base_address`.
pub fn stub_base() -> Address {
    unsafe { Address::from_usize(BASE) }
}

pub fn stub_true(_a: Address) -> bool {
    true
}

/// A window of `8 * 8 * W / width` consecutive data regions whose metadata is `buf`.
pub struct Window<const W: usize> {
    pub spec: SideMetadataSpec,
    /// index of the first region of the window (symbolic, `(r0 << log_num_of_bits) % 64 == 0`)
    pub r0: usize,
    /// number of fields in the window
    pub n: usize,
}

impl<const W: usize> Window<W> {
    /// Choose a symbolic spec of `log_bits` bits per region and a symbolic window position, and point the
    /// stubbed base so that region `r0`'s field is bit 0 of `buf`.
    pub fn new(buf: &mut [u64; W], log_bits: usize, max_log_region: usize) -> Self {
        Self::new_at(Address::from_mut_ptr(buf.as_mut_ptr()).as_usize(), log_bits, max_log_region)
    }

    /// Same, for a buffer of `8 * W` bytes at the 8-byte aligned address `buf_addr`.
    pub fn new_at(buf_addr: usize, log_bits: usize, max_log_region: usize) -> Self {
        let lbr: usize = kani::any();
        kani::assume(lbr <= max_log_region);
        Self::new_geom(buf_addr, log_bits, lbr)
    }

    /// Same with a given region size (may be concrete, which keeps shift amounts constant for the solver).
    pub fn new_geom(buf_addr: usize, log_bits: usize, lbr: usize) -> Self {
        // a region has at least as many data bits as metadata bits (log_data_meta_ratio >= 0)
        kani::assume(lbr + 3 >= log_bits);
        let offset: usize = kani::any();
        kani::assume(offset % 8 == 0 && offset <= (1 << 44));
        let spec = SideMetadataSpec {
            name: "kani",
            is_global: kani::any(),
            offset,
            log_num_of_bits: log_bits,
            log_bytes_in_region: lbr,
        };
        let n = (64 * W) >> log_bits;
        let r0: usize = kani::any();
        // window start is word aligned in metadata space
        kani::assume((r0 << log_bits) % 64 == 0);
        // all data addresses of the window fit in the address space
        kani::assume(r0 <= (usize::MAX >> lbr) - n);
        // ... and their metadata bit index fits in a usize (metadata no larger than the address space)
        kani::assume(r0 <= (usize::MAX >> log_bits) - n);
        let m0 = (r0 << log_bits) / 8; // metadata byte offset of region r0 (exact: multiple of 8 bytes)
        // the window's metadata offset does not exceed the harness buffer's address (no negative base)
        kani::assume(offset + m0 <= buf_addr);
        unsafe { BASE = buf_addr - offset - m0 };
        Window { spec, r0, n }
    }

    /// Data address inside region `r0 + k` (symbolic offset within the region).
    pub fn addr_in(&self, k: usize) -> Address {
        let within: usize = kani::any();
        kani::assume(within < (1usize << self.spec.log_bytes_in_region));
        unsafe { Address::from_usize(((self.r0 + k) << self.spec.log_bytes_in_region) | within) }
    }

    /// Start address of region `r0 + k`.
    pub fn region_start(&self, k: usize) -> Address {
        unsafe { Address::from_usize((self.r0 + k) << self.spec.log_bytes_in_region) }
    }

    pub fn width(&self) -> usize {
        1 << self.spec.log_num_of_bits
    }

    pub fn value_mask(&self) -> u64 {
        if self.spec.log_num_of_bits == 6 { !0 } else { (1u64 << self.width()) - 1 }
    }

    /// (word, shift) of field `k` in the image.
    pub fn field_pos(&self, k: usize) -> (usize, u32) {
        let bit = k << self.spec.log_num_of_bits;
        (bit / 64, (bit % 64) as u32)
    }

    /// Oracle: value of field `k` in image `img`.
    pub fn field(&self, img: &[u64; W], k: usize) -> u64 {
        let (w, s) = self.field_pos(k);
        (img[w] >> s) & self.value_mask()
    }

}

/// `new` equals `old` everywhere except (possibly) in field `k`.
pub fn frame4(win: &Window<4>, old: &[u64; 4], new: &[u64; 4], k: usize) -> bool {
    let (w, s) = win.field_pos(k);
    let m = win.value_mask() << s;
    let k0 = if w == 0 { !m } else { !0 };
    let k1 = if w == 1 { !m } else { !0 };
    let k2 = if w == 2 { !m } else { !0 };
    let k3 = if w == 3 { !m } else { !0 };
    (old[0] & k0) == (new[0] & k0)
        && (old[1] & k1) == (new[1] & k1)
        && (old[2] & k2) == (new[2] & k2)
        && (old[3] & k3) == (new[3] & k3)
}

pub fn same4(a: &[u64; 4], b: &[u64; 4]) -> bool {
    a[0] == b[0] && a[1] == b[1] && a[2] == b[2] && a[3] == b[3]
}

/// A byte-typed, 8-byte aligned metadata buffer. Bulk operations (memset / memmove through `write_bytes` / `ptr::copy`)
/// are run on byte arrays: CBMC 6.11 mis-models a byte-granular memset with symbolic offset/length into a `[u64; N]`
/// object (a spurious counterexample that does not reproduce natively), but models it exactly on `[u8; N]`.
#[repr(C, align(8))]
#[derive(Clone, Copy)]
pub struct Bytes<const N: usize>(pub [u8; N]);

impl<const N: usize> Bytes<N> {
    pub fn addr(&mut self) -> usize {
        Address::from_mut_ptr(self.0.as_mut_ptr()).as_usize()
    }
    /// little-endian image words `w0..w0+4`
    pub fn img4(&self, w0: usize) -> [u64; 4] {
        let b = &self.0;
        let w = |i: usize| {
            let o = 8 * (w0 + i);
            u64::from_le_bytes([b[o], b[o + 1], b[o + 2], b[o + 3], b[o + 4], b[o + 5], b[o + 6], b[o + 7]])
        };
        [w(0), w(1), w(2), w(3)]
    }
}
