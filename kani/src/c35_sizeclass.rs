//! C35 — mark-sweep size classes fit every request.
use crate::vm::KVM;
use mmtk::verif_hooks as hk;
use mmtk::verif_hooks::ms_block_list as bl;

/// For every size up to the largest class: the bin is valid, its cell holds the request, and it is the
/// smallest such bin (tightness), so classes are monotone in the size.
#[kani::proof]
fn c35_bin_from_size() {
    let table = bl::new_empty_block_lists();
    let size: usize = kani::any();
    kani::assume(size <= bl::MAX_BIN_SIZE);
    let bin = bl::mi_bin_from_size(size);
    assert!(bin >= 1 && bin <= bl::MAX_BIN, "C35.bin.in_range");
    assert!(table[bin].size >= size, "C35.bin.cell_holds_request");
    assert!(bin == 1 || table[bin - 1].size < size, "C35.bin.tight");
    assert!(bl::mi_wsize_from_size(size) * 8 >= size && bl::mi_wsize_from_size(size) * 8 < size + 8, "C35.wsize.ceil_words");
    // monotone
    let size2: usize = kani::any();
    kani::assume(size2 <= bl::MAX_BIN_SIZE && size <= size2);
    assert!(bin <= bl::mi_bin_from_size(size2), "C35.bin.monotone");
    kani::cover!(bin == bl::MAX_BIN, "C35.cover.max_bin");
    kani::cover!(bin == 9 && size == 65, "C35.cover.first_log_bin");
    std::mem::forget(table);
}

/// The table itself: strictly increasing word-multiple sizes in bins 1..=MAX_BIN, last one is MAX_BIN_SIZE.
#[kani::proof]
#[kani::unwind(51)]
fn c35_table() {
    let table = bl::new_empty_block_lists();
    let mut i = 1;
    while i <= bl::MAX_BIN {
        assert!(table[i].size % 8 == 0 && table[i].size > 0, "C35.table.word_multiple");
        if i > 1 {
            assert!(table[i].size > table[i - 1].size, "C35.table.strictly_increasing");
        }
        assert!(table[i].is_empty(), "C35.table.starts_empty");
        i += 1;
    }
    assert!(table[bl::MAX_BIN].size == bl::MAX_BIN_SIZE, "C35.table.last_is_max");
    assert!(bl::MI_LARGE_OBJ_SIZE_MAX <= bl::MAX_BIN_SIZE, "C35.table.large_obj_max_fits");
    std::mem::forget(table);
}

/// With alignment: the selected class holds the worst-case padded request, for every legal alignment.
fn check_mi_bin<const MINA: usize, const MAXA: usize>() {
    type VM<const A: usize, const B: usize> = KVM<A, B, 0>;
    let table = bl::new_empty_block_lists();
    let size: usize = kani::any();
    let align: usize = kani::any();
    kani::assume(align.is_power_of_two() && align >= MINA && align <= MAXA);
    kani::assume(size % MINA == 0 && size <= bl::MAX_BIN_SIZE);
    let padded = hk::get_maximum_aligned_size::<VM<MINA, MAXA>>(size, align);
    kani::assume(padded <= bl::MAX_BIN_SIZE);
    let bin = hk::mi_bin::<VM<MINA, MAXA>>(size, align);
    assert!(bin >= 1 && bin <= bl::MAX_BIN, "C35.mi_bin.in_range");
    assert!(table[bin].size >= padded, "C35.mi_bin.cell_holds_padded_request");
    // and therefore the request wherever the cell start falls: padding + size <= padded (C33) <= cell
    assert!(padded >= size, "C35.mi_bin.padded_ge_size");
    kani::cover!(align == MAXA && padded > size || MAXA == MINA, "C35.cover.padded");
    std::mem::forget(table);
}

#[kani::proof]
fn c35_mi_bin_8_64() {
    check_mi_bin::<8, 64>();
}
#[kani::proof]
fn c35_mi_bin_4_16() {
    check_mi_bin::<4, 16>();
}
#[kani::proof]
fn c35_mi_bin_8_8() {
    check_mi_bin::<8, 8>();
}
