//! C22 — side-metadata search and scan agree with a naive scan.
//!
//! Tier A (complete): the bit-level helpers. Tier B (bounded window): the byte-scanning loops on a 24-byte
//! symbolic buffer with symbolic [start, end). Tier C (bounded window): the public functions.
//! "Agrees with a naive scan" is stated with symbolic witnesses instead of an oracle loop: the reported
//! position is set and inside the range, and *every* (symbolic) position the naive scan would have met
//! earlier is zero; NotFound means every position of the range is zero.
use crate::mmapper::*;
use crate::side::*;
use mmtk::verif_hooks::side_helpers::{self as h, FindMetaBitResult};
use mmtk::util::metadata::side_metadata::SideMetadataSpec;
use mmtk::util::Address;
use mmtk::verif_hooks::side_helpers as hp;

fn addr(x: usize) -> Address {
    unsafe { Address::from_usize(x) }
}

// ------------------------------------------------------------------------------------------
// Tier A: find_{last,first}_non_zero_bit on a value, all (value, start, end)
// ------------------------------------------------------------------------------------------

macro_rules! find_bit_harness {
    ($name:ident, $t:ty, $bits:expr, $last:path, $first:path) => {
        #[kani::proof]
        fn $name() {
            let v: $t = kani::any();
            let (s, e): (u8, u8) = (kani::any(), kani::any());
            kani::assume(s < e && e as u32 <= $bits);
            let j: u8 = kani::any();
            kani::assume(j >= s && j < e);
            let set_j = (v >> j) & 1 == 1;
            match $last(v, s, e) {
                Some(b) => {
                    assert!(b >= s && b < e && (v >> b) & 1 == 1, "C22.find_last_bit.result_is_set_and_in_range");
                    assert!(!(set_j && j > b), "C22.find_last_bit.no_set_bit_above_result");
                }
                None => assert!(!set_j, "C22.find_last_bit.none_means_all_zero"),
            }
            match $first(v, s, e) {
                Some(b) => {
                    assert!(b >= s && b < e && (v >> b) & 1 == 1, "C22.find_first_bit.result_is_set_and_in_range");
                    assert!(!(set_j && j < b), "C22.find_first_bit.no_set_bit_below_result");
                }
                None => assert!(!set_j, "C22.find_first_bit.none_means_all_zero"),
            }
            kani::cover!(e as u32 == $bits && s == 0, "C22.cover.full_width");
            kani::cover!(e == s + 1, "C22.cover.single_bit_range");
        }
    };
}
find_bit_harness!(c22_find_bit_u8, u8, 8, hp::find_last_non_zero_bit_u8, hp::find_first_non_zero_bit_u8);
find_bit_harness!(c22_find_bit_usize, usize, 64, hp::find_last_non_zero_bit_usize, hp::find_first_non_zero_bit_usize);

/// scan of one word: visits exactly the set bits, in ascending order, each once (loop <= 64 by width).
#[kani::proof]
#[kani::unwind(66)]
fn c22_scan_word() {
    let w: usize = kani::any();
    let mut seen: usize = 0;
    let mut last: i32 = -1;
    let mut ok = true;
    hp::scan_non_zero_bits_in_metadata_word(addr(0x1000), w, &mut |a, bit| {
        ok = ok && a == addr(0x1000) && (bit as i32) > last && bit < 64 && (w >> bit) & 1 == 1;
        seen |= 1usize << bit;
        last = bit as i32;
    });
    assert!(ok, "C22.scan_word.ascending_set_bits_only");
    assert!(seen == w, "C22.scan_word.visits_every_set_bit");
}

/// in-byte find/scan on a symbolic byte and bit range.
#[kani::proof]
#[kani::unwind(10)]
#[kani::stub(mmtk::util::heap::layout::create_mmapper, stub_create_mmapper)]
fn c22_bits_in_byte() {
    let mut byte: [u8; 1] = [kani::any()];
    let a = Address::from_mut_ptr(byte.as_mut_ptr());
    let v = byte[0];
    let (s, e): (u8, u8) = (kani::any(), kani::any());
    kani::assume(s < e && e <= 8);
    let j: u8 = kani::any();
    kani::assume(j >= s && j < e);
    let set_j = (v >> j) & 1 == 1;
    match h::find_last_non_zero_bit_in_metadata_bits(a, s, e) {
        FindMetaBitResult::Found { addr: fa, bit } => {
            assert!(fa == a && bit >= s && bit < e && (v >> bit) & 1 == 1, "C22.find_last_in_bits.result_set_in_range");
            assert!(!(set_j && j > bit), "C22.find_last_in_bits.highest");
        }
        FindMetaBitResult::NotFound => assert!(!set_j, "C22.find_last_in_bits.none_means_zero"),
        FindMetaBitResult::UnmappedMetadata => assert!(false, "C22.find_last_in_bits.mapped_is_not_unmapped"),
    }
    match h::find_first_non_zero_bit_in_metadata_bits(a, s, e) {
        FindMetaBitResult::Found { addr: fa, bit } => {
            assert!(fa == a && bit >= s && bit < e && (v >> bit) & 1 == 1, "C22.find_first_in_bits.result_set_in_range");
            assert!(!(set_j && j < bit), "C22.find_first_in_bits.lowest");
        }
        FindMetaBitResult::NotFound => assert!(!set_j, "C22.find_first_in_bits.none_means_zero"),
        FindMetaBitResult::UnmappedMetadata => assert!(false, "C22.find_first_in_bits.mapped_is_not_unmapped"),
    }
    let mut seen: u8 = 0;
    let mut last: i32 = -1;
    let mut ok = true;
    h::scan_non_zero_bits_in_metadata_bits(a, s, e, &mut |fa, bit| {
        ok = ok && fa == a && (bit as i32) > last && bit >= s && bit < e && (v >> bit) & 1 == 1;
        seen |= 1 << bit;
        last = bit as i32;
    });
    let range_mask = ((1u16 << e) - (1u16 << s)) as u8;
    assert!(ok, "C22.scan_bits.ascending_set_bits_in_range");
    assert!(seen == v & range_mask, "C22.scan_bits.visits_every_set_bit_of_range");
}

// ------------------------------------------------------------------------------------------
// Tier B: byte-scanning loops on a 24-byte window, symbolic [start, end) -- byte -> word -> byte stepping
// ------------------------------------------------------------------------------------------

fn bit_at(b: &[u8; 24], i: usize) -> bool {
    (b[i / 8] >> (i % 8)) & 1 == 1
}

#[kani::proof]
#[kani::unwind(26)]
#[kani::stub(mmtk::util::heap::layout::create_mmapper, stub_create_mmapper)]
fn c22_find_in_bytes() {
    let mut buf = Bytes::<24>(kani::any());
    let img = buf.0;
    let base = buf.addr();
    let (s, e): (usize, usize) = (kani::any(), kani::any());
    kani::assume(s < e && e <= 24);
    let j: usize = kani::any(); // a symbolic bit position of the byte range
    kani::assume(j >= 8 * s && j < 8 * e);
    let backwards: bool = kani::any();
    let r = if backwards {
        h::find_last_non_zero_bit_in_metadata_bytes(addr(base + s), addr(base + e))
    } else {
        h::find_first_non_zero_bit_in_metadata_bytes(addr(base + s), addr(base + e))
    };
    match r {
        FindMetaBitResult::Found { addr: fa, bit } => {
            let fa = fa.as_usize();
            assert!(fa >= base + s && fa < base + e && bit < 8, "C22.find_in_bytes.result_in_range");
            let p = 8 * (fa - base) + bit as usize;
            assert!(bit_at(&img, p), "C22.find_in_bytes.result_is_set");
            if backwards {
                assert!(!(bit_at(&img, j) && j > p), "C22.find_last_in_bytes.no_set_bit_above");
            } else {
                assert!(!(bit_at(&img, j) && j < p), "C22.find_first_in_bytes.no_set_bit_below");
            }
        }
        FindMetaBitResult::NotFound => assert!(!bit_at(&img, j), "C22.find_in_bytes.none_means_all_zero"),
        FindMetaBitResult::UnmappedMetadata => assert!(false, "C22.find_in_bytes.mapped_is_not_unmapped"),
    }
    kani::cover!(s % 8 == 3 && e - s >= 14 && e % 8 == 1, "C22.cover.bytes_word_bytes");
    kani::cover!(e - s == 1, "C22.cover.single_byte");
    kani::cover!(s % 8 == 0 && e % 8 == 0 && e - s == 16, "C22.cover.words_only");
}

/// scan over a byte range: visits exactly the set bits of the range, ascending, each once.
/// Bounded: 16-byte window, at most two set bits per 8-byte word (keeps the inner per-bit loop short).
#[kani::proof]
#[kani::unwind(11)]
fn c22_scan_in_bytes() {
    let sparse = |_: ()| -> u64 {
        let (a, b): (u32, u32) = (kani::any(), kani::any());
        kani::assume(a < 64 && b < 64);
        let m: u8 = kani::any();
        (if m & 1 != 0 { 1u64 << a } else { 0 }) | (if m & 2 != 0 { 1u64 << b } else { 0 })
    };
    let (w0, w1) = (sparse(()), sparse(()));
    let mut raw = [0u8; 16];
    let (b0, b1) = (w0.to_le_bytes(), w1.to_le_bytes());
    raw[0] = b0[0]; raw[1] = b0[1]; raw[2] = b0[2]; raw[3] = b0[3]; raw[4] = b0[4]; raw[5] = b0[5]; raw[6] = b0[6]; raw[7] = b0[7];
    raw[8] = b1[0]; raw[9] = b1[1]; raw[10] = b1[2]; raw[11] = b1[3]; raw[12] = b1[4]; raw[13] = b1[5]; raw[14] = b1[6]; raw[15] = b1[7];
    let mut buf = Bytes::<16>(raw);
    let base = buf.addr();
    let bit = |p: usize| -> bool { ((if p < 64 { w0 } else { w1 }) >> (p % 64)) & 1 == 1 };
    let (s, e): (usize, usize) = (kani::any(), kani::any());
    kani::assume(s <= e && e <= 16);
    let j: usize = kani::any();
    kani::assume(j < 128);
    let mut last: isize = -1;
    let mut ok = true;
    let mut saw_j = false;
    let mut count = 0usize;
    h::scan_non_zero_bits_in_metadata_bytes(addr(base + s), addr(base + e), &mut |fa, b| {
        let fa = fa.as_usize();
        // a word-wise step reports (word address, bit 0..63); normalise to an absolute bit position
        let p = 8 * (fa - base) + b as usize;
        ok = ok && fa >= base + s && p < 8 * e && p < 128 && bit(p) && (p as isize) > last;
        last = p as isize;
        saw_j = saw_j || p == j;
        count += 1;
    });
    assert!(ok, "C22.scan_in_bytes.ascending_set_bits_in_range");
    let j_expected = j >= 8 * s && j < 8 * e && bit(j);
    assert!(saw_j == j_expected, "C22.scan_in_bytes.visits_exactly_the_set_bits_of_the_range");
    kani::cover!(count == 4, "C22.cover.scan_four_bits");
    kani::cover!(count == 2 && s % 8 == 5 && e == 16, "C22.cover.scan_unaligned_start");
    std::mem::forget(buf);
}

// ------------------------------------------------------------------------------------------
// Tier C: the public search / scan functions on a 16-byte metadata window (bounded search length)
// ------------------------------------------------------------------------------------------

const MAX_REGIONS_SEARCHED: usize = 20;

fn any_small_bits() -> usize {
    let lb: usize = kani::any();
    kani::assume(lb <= 3);
    lb
}

/// find_prev_non_zero_value(data_addr, limit) == the first non-zero region met by walking down region by region
/// from data_addr's region while the region start is >= data_addr - limit + 1 (the documented range).
/// mmtk's own debug cross-check (fast == simple) is live and is an additional obligation.
#[kani::proof]
#[kani::unwind(24)]
#[kani::stub(mmtk::util::metadata::side_metadata::global_side_metadata_base_address, stub_base)]
#[kani::stub(mmtk::util::heap::layout::create_mmapper, stub_create_mmapper)]
fn c22_find_prev_non_zero_value_deep() {
    check_find_prev(any_small_bits(), None, MAX_REGIONS_SEARCHED);
}

/// The VO-bit geometry (1 bit per 8-byte region), search of up to 12 regions.
#[kani::proof]
#[kani::unwind(16)]
#[kani::stub(mmtk::util::metadata::side_metadata::global_side_metadata_base_address, stub_base)]
#[kani::stub(mmtk::util::heap::layout::create_mmapper, stub_create_mmapper)]
fn c22_find_prev_non_zero_value_vo_geometry_deep() {
    check_find_prev(0, Some(3), 12);
}

fn check_find_prev(lb: usize, lbr: Option<usize>, max_regions: usize) {
    let mut buf = Bytes::<16>(kani::any());
    let img = [
        u64::from_le_bytes([buf.0[0], buf.0[1], buf.0[2], buf.0[3], buf.0[4], buf.0[5], buf.0[6], buf.0[7]]),
        u64::from_le_bytes([buf.0[8], buf.0[9], buf.0[10], buf.0[11], buf.0[12], buf.0[13], buf.0[14], buf.0[15]]),
    ];
    let win = match lbr {
        Some(l) => Window::<2>::new_geom(buf.addr(), lb, l),
        None => Window::<2>::new_at(buf.addr(), lb, 12),
    };
    kani::assume(win.r0 > 0);
    let k: usize = kani::any();
    kani::assume(k < win.n);
    let data_addr = win.addr_in(k);
    let limit: usize = kani::any();
    kani::assume(limit >= 1);
    let lowest = data_addr.as_usize() - (limit - 1).min(data_addr.as_usize()); // data_addr.saturating_sub(limit) + 1
    // the searched range stays inside the window and is at most MAX_REGIONS_SEARCHED regions long
    kani::assume(lowest >= win.region_start(0).as_usize());
    kani::assume(limit <= max_regions << win.spec.log_bytes_in_region);
    // the corner where data_addr's own region starts below the range is decided by c22_find_prev_fast_modular / _simple
    kani::assume(win.region_start(k).as_usize() >= lowest);
    let r = unsafe { win.spec.find_prev_non_zero_value::<u8>(data_addr, limit) };
    let j: usize = kani::any();
    kani::assume(j <= k && win.region_start(j).as_usize() >= lowest);
    match r {
        Some(a) => {
            let a = a.as_usize();
            assert!(a & ((1 << win.spec.log_bytes_in_region) - 1) == 0, "C22.find_prev.result_is_region_start");
            assert!(a >= lowest && a <= data_addr.as_usize(), "C22.find_prev.result_in_search_range");
            let q = (a >> win.spec.log_bytes_in_region) - win.r0;
            assert!(win.field(&img, q) != 0, "C22.find_prev.result_is_non_zero");
            assert!(!(j > q && win.field(&img, j) != 0), "C22.find_prev.no_non_zero_region_met_earlier");
        }
        None => assert!(win.field(&img, j) == 0, "C22.find_prev.none_means_all_zero"),
    }
    kani::cover!(r.is_some() && r.unwrap().as_usize() < win.region_start(k).as_usize(), "C22.cover.find_prev_lower_region");
    kani::cover!(r.is_none() && limit > (8 << win.spec.log_bytes_in_region), "C22.cover.find_prev_none_long");
    std::mem::forget(buf);
}

/// find_next_non_zero_value(data_addr, limit): first non-zero region walking up from data_addr's region while the
/// region start is < data_addr + limit.
#[kani::proof]
#[kani::unwind(24)]
#[kani::stub(mmtk::util::metadata::side_metadata::global_side_metadata_base_address, stub_base)]
#[kani::stub(mmtk::util::heap::layout::create_mmapper, stub_create_mmapper)]
fn c22_find_next_non_zero_value_deep() {
    check_find_next(any_small_bits(), None, MAX_REGIONS_SEARCHED);
}

#[kani::proof]
#[kani::unwind(16)]
#[kani::stub(mmtk::util::metadata::side_metadata::global_side_metadata_base_address, stub_base)]
#[kani::stub(mmtk::util::heap::layout::create_mmapper, stub_create_mmapper)]
fn c22_find_next_non_zero_value_vo_geometry_deep() {
    check_find_next(0, Some(3), 12);
}

fn check_find_next(lb: usize, lbr: Option<usize>, max_regions: usize) {
    let mut buf = Bytes::<16>(kani::any());
    let img = [
        u64::from_le_bytes([buf.0[0], buf.0[1], buf.0[2], buf.0[3], buf.0[4], buf.0[5], buf.0[6], buf.0[7]]),
        u64::from_le_bytes([buf.0[8], buf.0[9], buf.0[10], buf.0[11], buf.0[12], buf.0[13], buf.0[14], buf.0[15]]),
    ];
    let win = match lbr {
        Some(l) => Window::<2>::new_geom(buf.addr(), lb, l),
        None => Window::<2>::new_at(buf.addr(), lb, 12),
    };
    let k: usize = kani::any();
    kani::assume(k < win.n);
    let data_addr = win.addr_in(k);
    let limit: usize = kani::any();
    kani::assume(limit >= 1 && limit <= max_regions << win.spec.log_bytes_in_region);
    let end = data_addr.as_usize() + limit;
    // the searched range (rounded up to a region, as the code does) stays inside the window
    kani::assume(end <= win.region_start(win.n - 1).as_usize());
    let r = unsafe { win.spec.find_next_non_zero_value::<u8>(data_addr, limit) };
    let j: usize = kani::any();
    kani::assume(j >= k && j < win.n && win.region_start(j).as_usize() < end);
    match r {
        Some(a) => {
            let a = a.as_usize();
            assert!(a & ((1 << win.spec.log_bytes_in_region) - 1) == 0, "C22.find_next.result_is_region_start");
            assert!(a >= win.region_start(k).as_usize() && a < end, "C22.find_next.result_in_search_range");
            let q = (a >> win.spec.log_bytes_in_region) - win.r0;
            assert!(win.field(&img, q) != 0, "C22.find_next.result_is_non_zero");
            assert!(!(j < q && win.field(&img, j) != 0), "C22.find_next.no_non_zero_region_met_earlier");
        }
        None => assert!(win.field(&img, j) == 0, "C22.find_next.none_means_all_zero"),
    }
    kani::cover!(r.is_some() && r.unwrap() > win.region_start(k), "C22.cover.find_next_higher_region");
    kani::cover!(r.is_none() && limit > (8 << win.spec.log_bytes_in_region), "C22.cover.find_next_none_long");
    std::mem::forget(buf);
}

// ------------------------------------------------------------------------------------------
// Tier C (modular): find_{prev,next}_non_zero_value_fast checked against the *contracts* of the two
// byte-scanning loops (proved by c22_find_in_bytes) instead of their bodies. With the loops replaced
// the search functions are loop-free, so the search range is only limited by the size of the harness
// buffer (64 metadata bytes = 512 one-bit regions), not by an unwinding bound.
//
// The contract of `find_last_non_zero_bit_in_metadata_bytes(start, end)` is
//     Found{a, b}  =>  start <= a < end, bit (a,b) is set, and every bit of [start,end) above (a,b) is zero
//     NotFound     =>  every bit of [start, end) is zero
// (dually for find_first). A contract stub cannot state the universally quantified part, so it is instantiated
// at one *witness* bit chosen symbolically by the harness before the call (W_BIT): the stub returns an arbitrary
// result and assumes the contract for that witness. Since the witness is arbitrary and the harness' final assertion
// speaks about exactly that witness, this is the contract, not a weakening of it.
// ------------------------------------------------------------------------------------------

static mut W_BASE: usize = 0;
static mut W_LEN: usize = 0;
static mut W_BIT: usize = 0;
static mut W_CALLS: usize = 0;

unsafe fn mbit(p: usize) -> bool {
    let b = *((W_BASE + p / 8) as *const u8);
    (b >> (p % 8)) & 1 == 1
}

fn contract_find_in_bytes(start: Address, end: Address, last: bool) -> FindMetaBitResult {
    unsafe {
        let (s, e) = (start.as_usize(), end.as_usize());
        // precondition of the contract: a well-formed range of mapped metadata (the harness buffer)
        assert!(s <= e && s >= W_BASE && e <= W_BASE + W_LEN, "C22.modular.byte_scanner_called_on_a_range_inside_the_searched_metadata");
        W_CALLS += 1;
        let w_in = W_BIT >= 8 * (s - W_BASE) && W_BIT < 8 * (e - W_BASE);
        if kani::any() {
            let a: usize = kani::any();
            let bit: u8 = kani::any();
            kani::assume(a >= s && a < e && bit < 8);
            let p = 8 * (a - W_BASE) + bit as usize;
            kani::assume(mbit(p));
            if last {
                kani::assume(!(w_in && W_BIT > p && mbit(W_BIT)));
            } else {
                kani::assume(!(w_in && W_BIT < p && mbit(W_BIT)));
            }
            FindMetaBitResult::Found { addr: Address::from_usize(a), bit }
        } else {
            kani::assume(!(w_in && mbit(W_BIT)));
            FindMetaBitResult::NotFound
        }
    }
}
fn contract_find_last_in_bytes(start: Address, end: Address) -> FindMetaBitResult {
    contract_find_in_bytes(start, end, true)
}
fn contract_find_first_in_bytes(start: Address, end: Address) -> FindMetaBitResult {
    contract_find_in_bytes(start, end, false)
}

const MW: usize = 64; // metadata bytes in the modular harnesses' window

fn fieldb(img: &[u8; MW], k: usize, lb: usize) -> u8 {
    let bit = k << lb;
    let mask = if lb == 3 { 0xff } else { (1u8 << (1 << lb)) - 1 };
    (img[bit / 8] >> (bit % 8)) & mask
}

/// Common set-up: 64-byte symbolic window, symbolic spec of width 2^lb (lb <= 3), witness region j with a witness
/// bit inside its field that is set whenever the field is non-zero. Returns (window, image, j).
fn modular_setup(buf: &mut Bytes<MW>, lb: usize) -> (Window<8>, [u8; MW], usize) {
    modular_setup_geom(buf, lb, None)
}
fn modular_setup_geom(buf: &mut Bytes<MW>, lb: usize, lbr: Option<usize>) -> (Window<8>, [u8; MW], usize) {
    let img = buf.0;
    let win = match lbr {
        Some(l) => Window::<8>::new_geom(buf.addr(), lb, l),
        None => Window::<8>::new_at(buf.addr(), lb, 12),
    };
    let j: usize = kani::any();
    kani::assume(j < win.n);
    let jb: usize = kani::any();
    kani::assume(jb < (1 << lb));
    let wbit = (j << lb) + jb;
    // no restriction on (image, j): a non-zero field has a set bit, and jb may be chosen as that bit
    kani::assume(fieldb(&img, j, lb) == 0 || (img[wbit / 8] >> (wbit % 8)) & 1 == 1);
    unsafe {
        W_BASE = buf.addr();
        W_LEN = MW;
        W_BIT = wbit;
        W_CALLS = 0;
    }
    (win, img, j)
}

fn spec_find_prev(win: &Window<8>, img: &[u8; MW], lb: usize, k: usize, data_addr: Address, limit: usize, j: usize, r: Option<Address>, tag_simple: bool) {
    let lowest = data_addr.as_usize() - (limit - 1).min(data_addr.as_usize());
    let lbr = win.spec.log_bytes_in_region;
    let j_in = j <= k && win.region_start(j).as_usize() >= lowest;
    if win.region_start(k).as_usize() < lowest {
        // Corner: data_addr is not region aligned and the limit is so small that not even the start of data_addr's own
        // region lies in [data_addr - limit + 1, data_addr]. A region-by-region scan of that range meets no region.
        if tag_simple {
            assert!(r.is_none(), "C22.find_prev_simple.range_without_a_region_start_yields_none");
        } else if fieldb(img, k, lb) != 0 {
            assert!(r.is_none(), "C22.find_prev_fast.own_non_zero_region_starting_below_the_range_is_not_reported");
        } else {
            assert!(r.is_none(), "C22.find_prev_fast.range_without_a_region_start_yields_none");
        }
        return;
    }
    match r {
        Some(a) => {
            let a = a.as_usize();
            if tag_simple {
                assert!(a & ((1 << lbr) - 1) == 0, "C22.find_prev_simple.result_is_region_start");
                assert!(a >= lowest && a <= data_addr.as_usize(), "C22.find_prev_simple.result_in_search_range");
            } else {
                assert!(a & ((1 << lbr) - 1) == 0, "C22.find_prev_fast.result_is_region_start");
                assert!(a >= lowest && a <= data_addr.as_usize(), "C22.find_prev_fast.result_in_search_range");
            }
            let q = (a >> lbr) - win.r0;
            if tag_simple {
                assert!(fieldb(img, q, lb) != 0, "C22.find_prev_simple.result_is_non_zero");
                assert!(!(j_in && j > q && fieldb(img, j, lb) != 0), "C22.find_prev_simple.no_non_zero_region_met_earlier");
            } else {
                assert!(fieldb(img, q, lb) != 0, "C22.find_prev_fast.result_is_non_zero");
                assert!(!(j_in && j > q && fieldb(img, j, lb) != 0), "C22.find_prev_fast.no_non_zero_region_met_earlier");
            }
        }
        None => {
            if tag_simple {
                assert!(!(j_in && fieldb(img, j, lb) != 0), "C22.find_prev_simple.none_means_all_zero");
            } else {
                assert!(!(j_in && fieldb(img, j, lb) != 0), "C22.find_prev_fast.none_means_all_zero");
            }
        }
    }
}

/// find_prev_non_zero_value_fast against the scanner contracts: any window position, region size, width 1/2/4/8 bits,
/// any data address and any limit whose range stays inside the 64-byte window. Loop-free.
// (unwind: loop-free except std's Once::call state loop behind the MMAPPER lazy static)
#[kani::proof]
#[kani::unwind(4)]
#[kani::stub(mmtk::util::metadata::side_metadata::global_side_metadata_base_address, stub_base)]
#[kani::stub(mmtk::util::heap::layout::create_mmapper, stub_create_mmapper)]
#[kani::stub(mmtk::util::metadata::side_metadata::helpers::find_last_non_zero_bit_in_metadata_bytes, contract_find_last_in_bytes)]
fn c22_find_prev_fast_modular() {
    let lb = any_small_bits();
    let mut buf = Bytes::<MW>(kani::any());
    let (win, img, j) = modular_setup(&mut buf, lb);
    kani::assume(win.r0 > 0);
    // the code's inverse translation subtracts the two logs
    kani::assume(win.spec.log_bytes_in_region >= lb);
    let k: usize = kani::any();
    kani::assume(k < win.n);
    let data_addr = win.addr_in(k);
    let limit: usize = kani::any();
    kani::assume(limit >= 1);
    let lowest = data_addr.as_usize() - (limit - 1).min(data_addr.as_usize());
    kani::assume(lowest >= win.region_start(0).as_usize());
    let r = mmtk::verif_hooks::side_global::find_prev_non_zero_value_fast::<u8>(&win.spec, data_addr, limit);
    spec_find_prev(&win, &img, lb, k, data_addr, limit, j, r, false);
    kani::cover!(r.is_some() && unsafe { W_CALLS } > 0 && k > 300, "C22.cover.fast_prev_found_by_byte_scanner_long_range");
    kani::cover!(r.is_none() && limit > (200 << win.spec.log_bytes_in_region), "C22.cover.fast_prev_none_long");
    kani::cover!(win.region_start(k).as_usize() < lowest, "C22.cover.fast_prev_own_region_starts_below_range");
    std::mem::forget(buf);
}

/// The region-by-region implementation (the property's reference scan) against the same specification;
/// bounded: at most 10 regions searched.
#[kani::proof]
#[kani::unwind(13)]
#[kani::stub(mmtk::util::metadata::side_metadata::global_side_metadata_base_address, stub_base)]
#[kani::stub(mmtk::util::heap::layout::create_mmapper, stub_create_mmapper)]
fn c22_find_prev_simple() {
    check_find_prev_simple(0, Some(3));
}
#[kani::proof]
#[kani::unwind(13)]
#[kani::stub(mmtk::util::metadata::side_metadata::global_side_metadata_base_address, stub_base)]
#[kani::stub(mmtk::util::heap::layout::create_mmapper, stub_create_mmapper)]
fn c22_find_prev_simple_deep() {
    check_find_prev_simple(any_small_bits(), None);
}
fn check_find_prev_simple(lb: usize, lbr: Option<usize>) {
    let mut buf = Bytes::<MW>(kani::any());
    let (win, img, j) = modular_setup_geom(&mut buf, lb, lbr);
    kani::assume(win.r0 > 0);
    let k: usize = kani::any();
    kani::assume(k < win.n);
    let data_addr = win.addr_in(k);
    let limit: usize = kani::any();
    kani::assume(limit >= 1 && limit <= 10 << win.spec.log_bytes_in_region);
    let lowest = data_addr.as_usize() - (limit - 1).min(data_addr.as_usize());
    kani::assume(lowest >= win.region_start(0).as_usize());
    let r = mmtk::verif_hooks::side_global::find_prev_non_zero_value_simple::<u8>(&win.spec, data_addr, limit);
    spec_find_prev(&win, &img, lb, k, data_addr, limit, j, r, true);
    kani::cover!(r.is_some() && r.unwrap() < win.region_start(k), "C22.cover.simple_prev_lower_region");
    kani::cover!(win.region_start(k).as_usize() < lowest, "C22.cover.simple_prev_own_region_starts_below_range");
    std::mem::forget(buf);
}

fn spec_find_next(win: &Window<8>, img: &[u8; MW], lb: usize, k: usize, end: usize, j: usize, r: Option<Address>, tag_simple: bool) {
    let lbr = win.spec.log_bytes_in_region;
    let j_in = j >= k && win.region_start(j).as_usize() < end;
    match r {
        Some(a) => {
            let a = a.as_usize();
            if tag_simple {
                assert!(a & ((1 << lbr) - 1) == 0, "C22.find_next_simple.result_is_region_start");
                assert!(a >= win.region_start(k).as_usize() && a < end, "C22.find_next_simple.result_in_search_range");
            } else {
                assert!(a & ((1 << lbr) - 1) == 0, "C22.find_next_fast.result_is_region_start");
                assert!(a >= win.region_start(k).as_usize() && a < end, "C22.find_next_fast.result_in_search_range");
            }
            let q = (a >> lbr) - win.r0;
            if tag_simple {
                assert!(fieldb(img, q, lb) != 0, "C22.find_next_simple.result_is_non_zero");
                assert!(!(j_in && j < q && fieldb(img, j, lb) != 0), "C22.find_next_simple.no_non_zero_region_met_earlier");
            } else {
                assert!(fieldb(img, q, lb) != 0, "C22.find_next_fast.result_is_non_zero");
                assert!(!(j_in && j < q && fieldb(img, j, lb) != 0), "C22.find_next_fast.no_non_zero_region_met_earlier");
            }
        }
        None => {
            if tag_simple {
                assert!(!(j_in && fieldb(img, j, lb) != 0), "C22.find_next_simple.none_means_all_zero");
            } else {
                assert!(!(j_in && fieldb(img, j, lb) != 0), "C22.find_next_fast.none_means_all_zero");
            }
        }
    }
}

// (unwind: loop-free except std's Once::call state loop behind the MMAPPER lazy static)
#[kani::proof]
#[kani::unwind(4)]
#[kani::stub(mmtk::util::metadata::side_metadata::global_side_metadata_base_address, stub_base)]
#[kani::stub(mmtk::util::heap::layout::create_mmapper, stub_create_mmapper)]
#[kani::stub(mmtk::util::metadata::side_metadata::helpers::find_first_non_zero_bit_in_metadata_bytes, contract_find_first_in_bytes)]
fn c22_find_next_fast_modular() {
    let lb = any_small_bits();
    let mut buf = Bytes::<MW>(kani::any());
    let (win, img, j) = modular_setup(&mut buf, lb);
    kani::assume(win.spec.log_bytes_in_region >= lb);
    kani::assume(win.r0 > 0); // address 0 is never mapped (Address::is_mapped)
    let k: usize = kani::any();
    kani::assume(k < win.n);
    let data_addr = win.addr_in(k);
    let limit: usize = kani::any();
    kani::assume(limit >= 1 && limit <= (1 << 40) && data_addr.as_usize() <= (1usize << 60));
    let end = data_addr.as_usize() + limit;
    kani::assume(end <= win.region_start(win.n - 1).as_usize());
    let r = mmtk::verif_hooks::side_global::find_next_non_zero_value_fast::<u8>(&win.spec, data_addr, limit);
    spec_find_next(&win, &img, lb, k, end, j, r, false);
    kani::cover!(r.is_some() && unsafe { W_CALLS } > 0 && k < 100 && r.unwrap().as_usize() > win.region_start(400).as_usize(), "C22.cover.fast_next_found_by_byte_scanner_long_range");
    kani::cover!(r.is_none() && limit > (200 << win.spec.log_bytes_in_region), "C22.cover.fast_next_none_long");
    std::mem::forget(buf);
}

#[kani::proof]
#[kani::unwind(14)]
#[kani::stub(mmtk::util::metadata::side_metadata::global_side_metadata_base_address, stub_base)]
#[kani::stub(mmtk::util::heap::layout::create_mmapper, stub_create_mmapper)]
fn c22_find_next_simple() {
    check_find_next_simple(0, Some(3));
}
#[kani::proof]
#[kani::unwind(14)]
#[kani::stub(mmtk::util::metadata::side_metadata::global_side_metadata_base_address, stub_base)]
#[kani::stub(mmtk::util::heap::layout::create_mmapper, stub_create_mmapper)]
fn c22_find_next_simple_deep() {
    check_find_next_simple(any_small_bits(), None);
}
fn check_find_next_simple(lb: usize, lbr: Option<usize>) {
    let mut buf = Bytes::<MW>(kani::any());
    let (win, img, j) = modular_setup_geom(&mut buf, lb, lbr);
    kani::assume(win.r0 > 0 && win.r0 <= (1usize << 50));
    let k: usize = kani::any();
    kani::assume(k < win.n);
    let data_addr = win.addr_in(k);
    let limit: usize = kani::any();
    kani::assume(limit >= 1 && limit <= 10 << win.spec.log_bytes_in_region);
    let end = data_addr.as_usize() + limit;
    kani::assume(end <= win.region_start(win.n - 1).as_usize());
    let r = mmtk::verif_hooks::side_global::find_next_non_zero_value_simple::<u8>(&win.spec, data_addr, limit);
    spec_find_next(&win, &img, lb, k, end, j, r, true);
    kani::cover!(r.is_some() && r.unwrap() > win.region_start(k), "C22.cover.simple_next_higher_region");
    std::mem::forget(buf);
}


// ------------------------------------------------------------------------------------------
// scan_non_zero_values (fast path, 1 bit per region): visits exactly the non-zero regions of [start, end), ascending,
// each once -- against the bitmap itself (the region-by-region scan's answer). Bounded: an 8-byte metadata window
// (64 regions, <= 3 set bits) in the quick tier, 16 bytes (128 regions, <= 2 set bits per word) in the thorough tier.
// ------------------------------------------------------------------------------------------
fn sparse_word(max_bits: u8) -> u64 {
    let (a, b, c): (u32, u32, u32) = (kani::any(), kani::any(), kani::any());
    kani::assume(a < 64 && b < 64 && c < 64);
    let m: u8 = kani::any();
    (if m & 1 != 0 { 1u64 << a } else { 0 }) | (if m & 2 != 0 { 1u64 << b } else { 0 }) | (if m & 4 != 0 && max_bits >= 3 { 1u64 << c } else { 0 })
}

fn check_scan_values<const W: usize>(words: [u64; W]) {
    let mut raw = [[0u8; 8]; W];
    let mut i = 0;
    while i < W {
        raw[i] = words[i].to_le_bytes();
        i += 1;
    }
    let mut holder = Holder(raw); // [[u8; 8]; W] is W * 8 contiguous bytes, 8-byte aligned by Holder
    let base = Address::from_mut_ptr(holder.0.as_mut_ptr()).as_usize();
    let win = Window::<W>::new_geom(base, 0, 3);
    let bit = |p: usize| -> bool { (words[p / 64] >> (p % 64)) & 1 == 1 };
    let (ks, ke): (usize, usize) = (kani::any(), kani::any());
    kani::assume(ks <= ke && ke < win.n);
    let j: usize = kani::any();
    kani::assume(j < win.n);
    let lbr = win.spec.log_bytes_in_region;
    let r0 = win.r0;
    let mut last: isize = -1;
    let mut ok = true;
    let mut saw_j = false;
    let mut count = 0usize;
    mmtk::verif_hooks::side_global::scan_non_zero_values_fast(&win.spec, win.region_start(ks), win.region_start(ke), &mut |a: Address| {
        let a = a.as_usize();
        let q = (a >> lbr).wrapping_sub(r0);
        ok = ok && a & ((1 << lbr) - 1) == 0 && q >= ks && q < ke && q < 64 * W && bit(q) && (q as isize) > last;
        last = q as isize;
        saw_j = saw_j || q == j;
        count += 1;
    });
    assert!(ok, "C22.scan_values.visits_only_non_zero_regions_of_the_range_ascending");
    assert!(saw_j == (j >= ks && j < ke && bit(j)), "C22.scan_values.visits_exactly_the_non_zero_regions_of_the_range");
    kani::cover!(count == 3, "C22.cover.scan_values_three_regions");
    kani::cover!(count >= 1 && ks % 8 == 3 && ke % 8 == 5 && ke - ks > 30, "C22.cover.scan_values_unaligned_range");
    kani::cover!(ke - ks < 8 && ks % 8 != 0 && ks / 8 == ke / 8 && count == 1, "C22.cover.scan_values_inside_one_byte");
    std::mem::forget(holder);
}

#[repr(C, align(8))]
struct Holder<const W: usize>([[u8; 8]; W]);

#[kani::proof]
#[kani::unwind(11)]
#[kani::stub(mmtk::util::metadata::side_metadata::global_side_metadata_base_address, stub_base)]
fn c22_scan_values_fast_exp() {
    check_scan_values::<1>([sparse_word(3)]);
}

#[kani::proof]
#[kani::unwind(11)]
#[kani::stub(mmtk::util::metadata::side_metadata::global_side_metadata_base_address, stub_base)]
fn c22_scan_values_fast_two_words_exp() {
    check_scan_values::<2>([sparse_word(2), sparse_word(2)]);
}

// ------------------------------------------------------------------------------------------
// The byte-scanning loops at the edge of mapped metadata. The harness mmapper reports 8-byte grains and only the
// middle 16 bytes of a 48-byte buffer as mapped; the searched range sticks out of the mapped window on the side the
// scan moves towards. The scan must report UnmappedMetadata when it reaches the edge without having found a set bit,
// and must never report (i.e. never load) a bit of the unmapped parts, which hold all-ones.
// ------------------------------------------------------------------------------------------
#[kani::proof]
#[kani::unwind(36)]
#[kani::stub(mmtk::util::heap::layout::create_mmapper, stub_create_mmapper)]
fn c22_find_in_bytes_at_mapped_edge() {
    // 48-byte buffer: the middle 16 bytes are "mapped" (symbolic contents); the 16 bytes on either side are reported
    // unmapped by the harness mmapper and hold all-ones, so a scan that loads from them finds a bit there.
    let mid: [u8; 16] = kani::any();
    let mut raw = [0xffu8; 48];
    let mut i = 0;
    while i < 16 {
        raw[16 + i] = mid[i];
        i += 1;
    }
    let mut buf = Bytes::<48>(raw);
    let base = buf.addr() + 16; // start of the mapped window
    unsafe {
        MAPPED_LO = base;
        MAPPED_HI = base + 16;
        LOG_GRANULARITY = 3;
    }
    let backwards: bool = kani::any();
    // NOTE: the range bounds are offsets from the buffer's address. A free symbolic integer used as an address is
    // mis-resolved by CBMC's integer-to-pointer conversion (found while building this harness), so every address
    // that is dereferenced is derived from a real pointer.
    let (so, eo): (usize, usize) = (kani::any(), kani::any());
    kani::assume(so < eo && eo <= 48);
    let (s, e) = (base - 16 + so, base - 16 + eo);
    if backwards {
        kani::assume(e > base && e <= base + 16);
    } else {
        kani::assume(s >= base && s < base + 16);
    }
    let lo = if s > base { s } else { base };
    let hi = if e < base + 16 { e } else { base + 16 };
    let fully_mapped = s >= base && e <= base + 16;
    let j: usize = kani::any(); // witness bit inside the mapped part of the range
    kani::assume(j >= 8 * (lo - base) && j < 8 * (hi - base));
    let r = if backwards {
        h::find_last_non_zero_bit_in_metadata_bytes(addr(s), addr(e))
    } else {
        h::find_first_non_zero_bit_in_metadata_bytes(addr(s), addr(e))
    };
    let set_j = (mid[j / 8] >> (j % 8)) & 1 == 1;
    match r {
        FindMetaBitResult::Found { addr: fa, bit: b } => {
            let fa = fa.as_usize();
            assert!(fa >= lo && fa < hi && b < 8, "C22.mapped_edge.never_reports_a_bit_of_unmapped_metadata");
            let p = 8 * (fa - base) + b as usize;
            assert!((mid[p / 8] >> (p % 8)) & 1 == 1, "C22.mapped_edge.result_is_set");
            assert!(!(set_j && if backwards { j > p } else { j < p }), "C22.mapped_edge.no_set_bit_met_earlier");
        }
        FindMetaBitResult::NotFound => {
            assert!(fully_mapped, "C22.mapped_edge.not_found_only_if_whole_range_was_scanned");
            assert!(!set_j, "C22.mapped_edge.none_means_all_zero");
        }
        FindMetaBitResult::UnmappedMetadata => {
            assert!(!fully_mapped, "C22.mapped_edge.unmapped_only_if_range_leaves_mapped_memory");
            assert!(!set_j, "C22.mapped_edge.unmapped_only_after_scanning_the_mapped_part");
        }
    }
    kani::cover!(matches!(r, FindMetaBitResult::UnmappedMetadata) && backwards, "C22.cover.backward_scan_hits_unmapped_edge");
    kani::cover!(matches!(r, FindMetaBitResult::UnmappedMetadata) && !backwards, "C22.cover.forward_scan_hits_unmapped_edge");
    kani::cover!(matches!(r, FindMetaBitResult::Found { .. }) && !fully_mapped, "C22.cover.found_before_the_edge");
    std::mem::forget(buf);
}

